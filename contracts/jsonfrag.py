"""C13 — fragment-typing contracts for reactor/api/response/json.py (pyvc/fragtype.py): the kinds of what the assembler
methods are given and of what the helpers and library calls return.  Every entry here is an ASSUMPTION about a callee or a
parameter (listed in the evidence); what is PROVED is that, given them, each method returns a well-formed JSON object on
every path, with distinct literal keys, ASCII literal text and default json.dumps escaping."""
import ast

from pyvc.fragtype import Frag, Tmpl, Obj, Failure, Undecided, derive


def _value(why):
    return lambda it, e, a, k: Frag('VALUE', why=why, empty=False)


def _num(why):
    return lambda it, e, a, k: Frag('NUM', why=why, empty=False)


def _strc(why):
    def h(it, e, a, k):
        it.assumptions.add(f'{why} returns text which needs no JSON escaping')
        return Frag('STR', why=why)

    return h


def _json_dumps(it, e, args, kwargs):
    for kw in e.keywords:
        if kw.arg == 'ensure_ascii' and not (isinstance(kw.value, ast.Constant) and kw.value.value is True):
            raise Failure('json.dumps(..., ensure_ascii=False): the event is written as ASCII by Processes.write, non-ASCII text raises there')
        if kw.arg not in ('ensure_ascii', 'sort_keys', 'separators'):
            raise Undecided(f'json.dumps keyword {kw.arg}')
    it.assumptions.add('json.dumps (standard library, default ensure_ascii) returns one well-formed ASCII JSON value on one line')
    return Frag('VALUE', why='json.dumps', empty=False)


def _string(it, e, args, kwargs):
    """JSON._string(obj): by its own obligation (checked separately on its body) a JSON value for every obj"""
    a = args[0]
    if isinstance(a, Frag) and a.kind == 'VALUE':
        return a
    return Frag('VALUE', why='_string', empty=False)


def _mark_json(it, e, args, kwargs):
    """JSON._json(content) wraps text the module built itself as _RawJSON: the text must BE a JSON value"""
    a = args[0]
    if isinstance(a, Frag) and a.kind == 'VALUE':
        return a
    if isinstance(a, (str, Tmpl)):
        t = a if isinstance(a, Tmpl) else Tmpl([a])
        _k, notes = derive(t, 'VALUE')
        it.assumptions.update(notes)
        return Frag('VALUE', why='_json(...)', empty=False)
    raise Failure(f'_json() is given {a!r}, which is not known to be a JSON value')


def _kv(minimal=False):
    def h(it, e, args, kwargs):
        d = args[0]
        if isinstance(d, dict):
            for k, v in d.items():
                if not k.isascii() or '"' in k or '\\' in k:
                    raise Failure(f'key {k!r} needs escaping')
                if isinstance(v, Frag) and v.kind == 'MEMBERS':
                    raise Failure(f'a member list is used as the value of key {k!r}')
            return Frag('MEMBERS', keys=set(d), empty=(None if minimal else not d), why='_kv({' + ', '.join(d) + '})')
        it.assumptions.add(f'_kv({ast.unparse(e.args[0])}): a dictionary built elsewhere, keys unknown')
        return Frag('MEMBERS', keys=None, empty=None, why=f'_kv({ast.unparse(e.args[0])})')

    return h


def _json_kv(it, e, args, kwargs):
    it.assumptions.add(f'{ast.unparse(e.args[0])}: every key is plain text and every .json() of its values is a JSON value (callee contracts, bounded by events-from-wire)')
    return Frag('MEMBERS', keys=None, empty=None, why=f'_json_kv({ast.unparse(e.args[0])})')


def _negotiated(it, e, args, kwargs):
    return {'negotiated': Frag('VALUE', why='_negotiated', empty=False)}


SPEC = {
    'calls': {
        'self._string': _string,
        'self._json': _mark_json,
        'self._kv': _kv(),
        'self._minimalkv': _kv(True),
        'self._json_kv': _json_kv,
        'json.dumps': _json_dumps,
        'hexstring': _strc('hexstring()'),
        'socket.gethostname': _strc('socket.gethostname() (the local host name)'),
        'os.getpid': _num('os.getpid()'),
        'os.getppid': _num('os.getppid()'),
        'self._counter': _num('_counter()'),
        'self.time': _num('self.time()'),
        'time.time': _num('time.time()'),
        'Signal.name': lambda it, e, a, k: Frag('RAW', why='Signal.name()'),
        'REFRESH.json': _value('REFRESH.json()'),
        'Message.string': lambda it, e, a, k: (it.assumptions.add('Message.string() returns a non-empty name from a fixed table (long_names.get(code, "unknown"))'), Frag('STR', why='Message.string()', empty=False))[1],
        'fsm.name': lambda it, e, a, k: Frag('RAW', why='fsm.name()'),
        'self._negotiated': _negotiated,
        'message.update': lambda it, e, a, k: None,
    },
    'inline': {'_header', '_neighbor', '_operational_advisory', '_operational_query', '_operational_counter', '_operational_unknown'},
    # ASN objects are ints and render as decimal digits
    'attributes': {'self.version': 'STR', 'neighbor.session.local_as': 'NUM', 'neighbor.session.peer_as': 'NUM'},
}

# method -> {parameter: abstract value}; neighbor is local configuration (TRUSTED), direction / message_type are constants
# chosen by the callers inside ExaBGP, everything else is peer data (RAW / opaque objects)
NEIGHBOR = Frag('TRUSTED', why='neighbor')
DIRECTION = Frag('STR', why='direction', empty=False)


def params(method):
    peer = Obj('peer data')
    base = {'self': Obj('self'), 'neighbor': NEIGHBOR, 'direction': DIRECTION, 'negotiated': Obj('negotiated'), 'header': Frag('BYTES', why='header'), 'body': Frag('BYTES', why='body')}
    extra = {
        'down': {'reason': Frag('RAW', why='reason')},
        'fsm': {'fsm': Obj('fsm')},
        'signal': {'signal': 15},
        'notification': {'message': peer},
        'packets': {'category': 2},
        'open': {'message': peer},
        'refresh': {'refresh': peer},
        'operational': {'what': Frag('RAW', why='what'), 'operational': peer},
        '_operational_advisory': {'operational': peer},
        '_operational_query': {'operational': peer},
        '_operational_counter': {'operational': peer},
        '_operational_unknown': {'operational': peer},
    }
    base.update(extra.get(method, {}))
    return base


METHODS = ['up', 'connected', 'down', 'shutdown', 'negotiated', 'fsm', 'signal', 'notification', 'packets', 'keepalive', 'open', 'refresh', 'operational']
