"""C01 / C15 — the small encoders every sent route goes through: the attribute TLV header, the ADD-PATH adjustment of
an NLRI at pack time, the AS number width."""

import z3
from .common import *

AT = 'bgp/message/update/attribute/attribute.py'
IN = 'bgp/message/update/nlri/inet.py'
AS = 'bgp/message/open/asn.py'

# ---------------------------------------------------------------------------------------------- Attribute._attribute
# RFC 4271 4.3: <flags, type, length (1 octet, or 2 when the Extended Length bit is set)> <value>; the extended bit is
# REQUIRED above 255 octets.  An OPTIONAL attribute with an empty value is not sent at all.
contract(
    AT,
    'Attribute._attribute',
    props=('C01', 'C15', 'C09'),
    params={'klass': obj(None, FLAG=int_(0, 255), ID=int_(0, 255)), 'value': bytes_(0, 65535)},
    ensures=[
        'implies(klass.FLAG & 0x80 != 0 and len(value) == 0, len(result) == 0)',
        'implies(not (klass.FLAG & 0x80 != 0 and len(value) == 0), result[1] == klass.ID)',
        # the flags sent are the class flags, plus Extended Length exactly when needed (or already in the class flags)
        'implies(not (klass.FLAG & 0x80 != 0 and len(value) == 0) and len(value) > 255, result[0] == klass.FLAG | 0x10)',
        'implies(not (klass.FLAG & 0x80 != 0 and len(value) == 0) and len(value) <= 255, result[0] == klass.FLAG)',
        'implies(not (klass.FLAG & 0x80 != 0 and len(value) == 0) and result[0] & 0x10 == 0, len(result) == 3 + len(value) and result[2] == len(value) and result[3:] == value)',
        'implies(not (klass.FLAG & 0x80 != 0 and len(value) == 0) and result[0] & 0x10 != 0, len(result) == 4 + len(value) and result[2] * 256 + result[3] == len(value) and result[4:] == value)',
    ],
    canaries=[('if length > ATTR_LENGTH_EXTENDED_MAX:', 'if length > ATTR_LENGTH_EXTENDED_MAX + 1:'), ("len_value = pack('!H', length)", "len_value = pack('!H', length + 1)")],
)

# ---------------------------------------------------------------------------------------------- INET.pack_nlri
# RFC 7911 section 3: the 4-octet path identifier is present iff ADD-PATH send was negotiated for the family.  A route
# written with path-information loses it on a session without ADD-PATH; one written without gets identifier 0.


SEND = z3.Function('addpath_send', I, I, B)


def _send(it, args, kwargs, fr, node):
    return SEND(to_z3(args[0]), to_z3(args[1]))


def _nopath(it, args, kwargs, fr, node):
    # the module constant itself, evaluated in the tree under verification on every run (not an assumed value)
    from exabgp.bgp.message.update.nlri.qualifier.path import PathInfo

    return VBytes.lit(bytes(PathInfo.NOPATH.pack_path()))


for _file, _qual in ((IN, 'INETBase.pack_nlri'), ('bgp/message/update/nlri/label.py', 'LabelBase.pack_nlri'), ('bgp/message/update/nlri/ipvpn.py', 'IPVPNBase.pack_nlri')):
    contract(
        _file,
        _qual,
        props=('C01', 'C15'),
        params={'self': obj(None, afi=int_(1, 65535), safi=int_(1, 255), _has_addpath=bool_(), _packed=bytes_(1, 4096)), 'negotiated': obj(None)},
        callees={'negotiated.addpath.send': _send, 'PathInfo.NOPATH.pack_path': _nopath},
        requires=['implies(self._has_addpath, len(self._packed) >= 5)'],
        specfns={'sends': VSpecFn(lambda it, a, s: SEND(to_z3(a), to_z3(s)))},
        ensures=[
            'implies(sends(self.afi, self.safi) and self._has_addpath, result == self._packed)',
            'implies(sends(self.afi, self.safi) and not self._has_addpath, len(result) == 4 + len(self._packed) and result[0] == 0 and result[1] == 0 and result[2] == 0 and result[3] == 0 and result[4:] == self._packed)',
            'implies(not sends(self.afi, self.safi) and self._has_addpath, result == self._packed[4:])',
            'implies(not sends(self.afi, self.safi) and not self._has_addpath, result == self._packed)',
        ],
        canaries=[('return self._packed[PATH_INFO_SIZE:]', 'return self._packed[PATH_INFO_SIZE - 1:]'), ('if send_addpath:', 'if not send_addpath:')],
    )

# ---------------------------------------------------------------------------------------------- ASN.pack_asn
contract(
    AS,
    'ASN.pack_asn',
    props=('C01', 'C15'),
    params={'self': int_(0, 0xFFFFFFFF), 'asn4': bool_()},
    raises=[{'exc': 'struct.error', 'iff': 'not asn4 and self > 65535'}],
    ensures=[
        'implies(asn4, len(result) == 4 and ((result[0] * 256 + result[1]) * 256 + result[2]) * 256 + result[3] == self)',
        'implies(not asn4, len(result) == 2 and result[0] * 256 + result[1] == self)',
    ],
    canaries=[("'!L' if asn4 else '!H'", "'!H' if asn4 else '!L'")],
)

# ---------------------------------------------------------------------------------------------- CIDR (RFC 4271 4.3 <length, prefix>)
CI = 'bgp/message/update/nlri/cidr.py'


def _size(it, args, kwargs, fr, node):
    # CIDR.size(mask) is a table lookup (_mask_to_bytes, filled at import): by assumed contract here -- ceil(mask / 8) for
    # 0..128, 0 outside -- and checked EXHAUSTIVELY against the real function by bounded check C15 cidr-size-table
    m = to_z3(args[-1])
    return z3.If(z3.And(m >= 0, m <= 128), (m + 7) / 8, z3.IntVal(0))


def _iplen(it, args, kwargs, fr, node):
    a = to_z3(args[0])
    return z3.If(a == 1, z3.IntVal(4), z3.IntVal(16))


contract(
    CI,
    'CIDR.decode',
    props=('C15', 'C01', 'C02'),
    params={'afi': int_(1, 2), 'bgp': bytes_(0, 64)},
    callees={'CIDR.size': _size, 'IP.length': _iplen},
    raises=[{'exc': 'Notify', 'iff': 'len(bgp) == 0 or bgp[0] > (32 if afi == 1 else 128) or len(bgp) < 1 + (bgp[0] + 7) // 8'}],
    ensures=[
        # the mask is the first octet, the prefix is the next ceil(mask/8) octets, zero padded to the family's length
        'result[1] == bgp[0]',
        'len(result[0]) == (4 if afi == 1 else 16)',
        'result[0][: (bgp[0] + 7) // 8] == bgp[1 : 1 + (bgp[0] + 7) // 8]',
        'forall(lambda i: result[0][i] == 0, (bgp[0] + 7) // 8, (4 if afi == 1 else 16))',
    ],
    canaries=[('if len(bgp) < size + 1:', 'if len(bgp) < size:'), ('mask = bgp[0]', 'mask = bgp[0] + 1')],
)

contract(
    CI,
    'CIDR.pack_nlri',
    props=('C15', 'C01'),
    params={'self': obj(None, _mask=int_(0, 128), _packed=bytes_(0, 16), mask=int_(0, 128))},
    requires=['self.mask == self._mask', '(self._mask + 7) // 8 <= len(self._packed)'],
    callees={'CIDR.size': _size},
    ensures=[
        # <length, prefix>: the mask octet, then exactly ceil(mask/8) octets of the stored prefix.
        # With decode's postcondition: pack_nlri(decode(afi, b)) == b[: 1 + ceil(b[0]/8)]  (the round trip, by substitution)
        'len(result) == 1 + (self._mask + 7) // 8',
        'result[0] == self._mask',
        'result[1:] == self._packed[: (self._mask + 7) // 8]',
    ],
    canaries=[('bytes([self.mask]) + bytes(self._packed[: CIDR.size(self.mask)])', 'bytes([self.mask]) + bytes(self._packed[: CIDR.size(self.mask) + 1])')],
)
