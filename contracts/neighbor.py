"""C01 — bgp/neighbor/neighbor.py Neighbor.resolve_self: "next-hop self" becomes the local address of THAT session,
and the route it was given (which the configuration shares between all the neighbors it is announced to) is not
modified: frame condition on the argument's attribute collection.  Route.with_nexthop / Route.__init__ are inlined from
their source, so what the copy shares with the original is what the code shares."""

import z3
from .common import *

NB = 'bgp/neighbor/neighbor.py'
ROUTE = REG.resolve_class('exabgp.rib.route:Route')
REG.record_classes.add(ROUTE)
REG.mark_inline('rib/route.py', 'Route.__init__', 'Route.with_nexthop', 'Route.nexthop')

MUTATORS = ('add', 'remove', 'pop', 'clear', 'update', 'setdefault', 'popitem', '__setitem__', '__delitem__', 'merge', 'add_and_merge')


def _frozen_attributes(it, pname):
    """the attribute collection of the route handed in: reads are unconstrained, every mutator is a frame violation"""
    ctx = it.ctx
    has_nh = ctx.fresh('has NEXT_HOP', z3.BoolSort())
    ctx.inputs.setdefault(str(has_nh), ('bool', has_nh))
    nh_self = ctx.fresh('NEXT_HOP is unresolved self', z3.BoolSort())
    ctx.inputs.setdefault(str(nh_self), ('bool', nh_self))
    from exabgp.bgp.message.update.attribute.nexthop import NextHopSelf

    resolved_attr = VObj(None, {'opaque!': True, 'bool!': True, 'isinstance!': lambda c: True}, 'resolved NEXT_HOP')
    nh_attr = VObj(None, {'SELF': nh_self, 'resolved': False, 'isinstance!': lambda c: (nh_self if c is NextHopSelf else True), 'resolve': VSpecFn(lambda it2, *a, **k: resolved_attr, 'NextHopSelf.resolve'), 'bool!': True}, 'NEXT_HOP attribute')
    o = VObj(None, {'bool!': True, 'id!': ctx.fresh('id(attributes)')}, pname)

    def violation(name):
        def fn(it2, *a, **k):
            it2.ctx.refute('frame:route.attributes', 'frame', f'{name}() on the attribute collection of the route handed in: the caller shares that route between neighbors (only a new collection may be built)')
            return None

        return VSpecFn(fn, f'{pname}.{name}')

    for m in MUTATORS:
        o.fields[m] = violation(m)
    o.fields['contains!'] = lambda it2, oo, item: has_nh
    o.fields['getitem!'] = lambda it2, oo, k: nh_attr
    o.fields['setitem!'] = lambda it2, oo, k, v: it2.ctx.refute('frame:route.attributes', 'frame', 'item assignment on the attribute collection of the route handed in')
    o.fields['items'] = VSpecFn(lambda it2, *a, **k: VObj(None, {'opaque!': True, 'bool!': True}, 'attributes.items()'), 'items')
    o.fields['get'] = VSpecFn(lambda it2, *a, **k: nh_attr, 'get')
    o.fields['has'] = VSpecFn(lambda it2, *a, **k: has_nh, 'has')
    return o


def _nexthop(it, pname):
    ctx = it.ctx
    s = ctx.fresh('nexthop.SELF', z3.BoolSort())
    r = ctx.fresh('nexthop.resolved', z3.BoolSort())
    for v in (s, r):
        ctx.inputs.setdefault(str(v), ('bool', v))
    resolved_ip = VObj(None, {'bool!': True, 'none!': False, 'id!': ctx.fresh('id(resolved ip)')}, 'resolved ip')
    o = VObj(None, {'SELF': s, 'resolved': r, 'bool!': True, 'none!': False, 'id!': ctx.fresh('id(nexthop)')}, pname)
    o.fields['resolve'] = VSpecFn(lambda it2, *a, **k: resolved_ip, 'IPSelf.resolve')
    o.fields['resolved_ip!'] = resolved_ip
    return o


def _new_collection(it, args, kwargs, fr, node):
    """AttributeCollection(): a fresh collection of the callee's own -- it may be filled at will"""
    o = VObj(None, {'bool!': True, 'fresh!': True}, 'new AttributeCollection')
    for m in MUTATORS:
        o.fields[m] = VSpecFn(lambda it2, *a, **k: None, f'new.{m}')
    return o


def _replay(reg, c, model, clause):
    """the abstract model says which kind of route (NEXT_HOP attribute present, unresolved self): replayed with a real
    three-neighbor configuration and one real route handed to all of them"""
    out = {'function': f'{c.file}:{c.qualname}', 'clause': clause, 'model': model, 'confirmed': False}
    try:
        from bounded.c01 import _many_case

        f = _many_case(['route 10.0.0.0/24 next-hop self'], [0, 1, 2])
    except Exception as e:  # noqa
        out['error'] = repr(e)
        return out
    if f:
        out['confirmed'] = True
        out['input'] = f['input']
        out['observed'] = f['what']
    return out


contract(
    NB,
    'Neighbor.resolve_self',
    replay=_replay,
    props=('C01',),
    params={
        'self': obj(None),
        'route': obj('exabgp.rib.route:Route', nlri=obj(None, afi=int_(0, 65535)), attributes=custom(_frozen_attributes), _nexthop=custom(_nexthop)),
    },
    callees={
        'self.ip_self': returns_fresh('int', label='local address'),
        'AttributeCollection': _new_collection,
    },
    loops={0: {'inv': []}},
    opaque_calls=True,
    ensures=[
        # not "self", or already resolved: the route itself; otherwise a NEW route whose next-hop is the resolved address
        'implies(not old(route._nexthop.SELF) or old(route._nexthop.resolved), result is route)',
        'implies(old(route._nexthop.SELF) and not old(route._nexthop.resolved), result is not route)',
        'route._nexthop is old(route._nexthop)',
        'route.attributes is old(route.attributes)',
    ],
    canaries=[
        ('new_attrs = AttributeCollection()', 'new_attrs = route.attributes'),
        ('if nexthop.resolved:\n            return route', 'if nexthop.resolved:\n            return route.with_nexthop(nexthop)'),
    ],
    notes=['frame: every mutating method of AttributeCollection called on the collection of the argument route (or on anything the inlined Route.with_nexthop shares with it) is a refuted obligation frame:route.attributes'],
)
