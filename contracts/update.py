"""C02 / C09 / C03 — bgp/message/update/collection.py, nlri/collection.py (sizes, sections)"""

import z3
from .common import *

UC = 'bgp/message/update/collection.py'
MC = 'bgp/message/update/nlri/collection.py'

# ------------------------------------------------------------------------------------------------ split (C02, C03, C08)

contract(
    UC,
    'UpdateCollection.split',
    props=('C02', 'C03', 'C08', 'C09', 'C10'),
    params={'data': bytes_(0, 65535 - 19, 'memoryview')},
    lets={
        'n': 'len(data)',
        'lw': 'data[0] * 256 + data[1]',
        'la': 'data[2 + (data[0] * 256 + data[1])] * 256 + data[3 + (data[0] * 256 + data[1])]',
    },
    raises=[
        # RFC 4271 6.1: shorter than the minimum UPDATE is a Message Header Error (bad length)
        {'exc': 'Notify', 'args': '(1, 2)', 'iff': 'n < 4'},
        # RFC 4271 6.3: a Withdrawn Routes Length / Total Attribute Length that overruns the message: 3/1
        {'exc': 'Notify', 'args': '(3, 1)', 'iff': 'n >= 4 and (n < 4 + lw or n < 4 + lw + la)'},
    ],
    ensures=[
        # exactly the three RFC 4271 sections, for every byte string
        'result[0] == data[2:2 + lw]',
        'result[1] == data[4 + lw:4 + lw + la]',
        'result[2] == data[4 + lw + la:]',
        'len(result[0]) + len(result[1]) + len(result[2]) + 4 == n',
    ],
    result_value=lambda it, cfr: VTuple([it.ctx.fresh_bytes('withdrawn', 'memoryview'), it.ctx.fresh_bytes('attributes', 'memoryview'), it.ctx.fresh_bytes('announced', 'memoryview')]),
    canaries=[
        ('if length < UPDATE_ATTR_LENGTH_HEADER_SIZE + len_withdrawn:', 'if length < UPDATE_ATTR_LENGTH_HEADER_SIZE + len_withdrawn - 1:'),
        ('announced = data[start_announced:]', 'announced = data[start_announced + 1:]'),
        ('raise Notify(3, 1, f\'UPDATE attributes length', 'raise Notify(3, 2, f\'UPDATE attributes length'),
        ('if length < start_attributes + len_attributes:', 'if length <= start_attributes + len_attributes:'),
        ('withdrawn = data[UPDATE_WITHDRAWN_LENGTH_OFFSET :', 'withdrawn = data[UPDATE_WITHDRAWN_LENGTH_OFFSET + 0 * len_withdrawn: 1 +'),
    ],
)

contract(
    UC,
    'UpdateCollection.prefix',
    props=('C09', 'C01'),
    params={'data': bytes_(0, None)},
    requires=['len(data) <= 65535'],
    ensures=["result == pack('!H', len(data)) + data", 'len(result) == len(data) + 2'],
    result_value=lambda it, cfr: b_pack_prefix(it, cfr),
    canaries=[("pack('!H', len(data))", "pack('!H', len(data) + 1)")],
)


def b_pack_prefix(it, cfr):
    from pyvc.calls import b_pack

    d = cfr.locs['data']
    return b_pack(it, ['!H', d.length()], {}, None, None).concat(d)


contract(
    'bgp/message/message.py',
    'Message._message',
    props=('C09', 'C01'),
    params={'self': obj('exabgp.bgp.message.update.collection:UpdateCollection'), 'message': bytes_(0, None)},
    requires=['len(message) <= 65535 - 19'],
    ensures=[
        'len(result) == 19 + len(message)',
        'result[0:16] == Message.MARKER',
        'result[16] * 256 + result[17] == len(result)',
        'result[18] == 2',
        'result[19:] == message',
    ],
    result_value=lambda it, cfr: _msg_value(it, cfr),
    canaries=[("pack('!H', 19 + len(message))", "pack('!H', 18 + len(message))")],
)


def _msg_value(it, cfr):
    from pyvc.calls import b_pack

    m = cfr.locs['message']
    return VBytes.lit(b'\xff' * 16).concat(b_pack(it, ['!H', simp(19 + m.length())], {}, None, None)).concat(VBytes.lit(b'\x02')).concat(m)


contract(
    MC,
    'MPNLRICollection._attr_len',
    props=('C09',),
    params={'self': obj('exabgp.bgp.message.update.nlri.collection:MPNLRICollection'), 'payload_len': int_(0)},
    ensures=['result == payload_len + (4 if payload_len > 255 else 3)'],
    result=int_(),
    canaries=[('payload_len > 255', 'payload_len > 256')],
)

contract(
    MC,
    'MPNLRICollection._attribute_header',
    props=('C09', 'C01'),
    params={'self': obj('exabgp.bgp.message.update.nlri.collection:MPNLRICollection'), 'code': int_(14, 15), 'length': int_(0)},
    requires=['length <= 65535'],
    ensures=[
        # RFC 4271 4.3: optional, extended length iff the value is longer than 255 bytes
        'len(result) == (4 if length > 255 else 3)',
        'result[0] == (0x90 if length > 255 else 0x80)',
        'result[1] == code',
        'implies(length <= 255, result[2] == length)',
        'implies(length > 255, result[2] * 256 + result[3] == length)',
    ],
    result_value=lambda it, cfr: _hdr_value(it, cfr),
    canaries=[('if length > 255:', 'if length > 256:'), ('flag |= 0x10', 'flag |= 0x20')],
)


def _hdr_value(it, cfr):
    n = cfr.locs['length']
    v = it.ctx.fresh_bytes('attrhdr')
    it.ctx.assume(to_z3(v.length()) == z3.If(to_z3(n) > 255, 4, 3))
    return v


# ------------------------------------------------------------------------------------------------ messages(): IPv4 section (C09)


def _uf(name, *sorts):
    return z3.Function(name, *sorts)


def _pack_nlri_of_elem(it, args, kwargs, fr, node):
    """nlri.pack_nlri(negotiated) for element k of a route list: some non-empty byte string, a function of the element
    (assumed contract here; the NLRI encoders have their own contracts under C01)"""
    o = fr.lookup('nlri')
    seq, k = o.fields['seq!'], to_z3(o.fields['idx!'])
    ln = _uf(f'{seq}!plen', I, I)(k)
    it.ctx.assume(ln >= 1)
    arr = _uf(f'{seq}!parr', I, ARR)(k)
    kk = z3.Int('k!b')
    it.ctx.assume(z3.ForAll([kk], z3.And(z3.Select(arr, kk) >= 0, z3.Select(arr, kk) <= 255), patterns=[z3.Select(arr, kk)]))
    return VBytes.view(arr, 0, ln)


def _setup_messages_v4(it, fr):
    for tag, seq in (('a', 'v4_announces'), ('w', 'v4_withdraws')):
        fr.locs[f'plen_{tag}'] = VSpecFn(lambda it2, k, _s=seq: _uf(f'{_s}!plen', I, I)(to_z3(k)))
        fr.locs[f'psum_{tag}'] = VSpecFn(lambda it2, k, _s=seq: _uf(f'{_s}!psum', I, I)(to_z3(k)))


def _on_yield_v4(it, fr, v):
    # ghost: bytes of announce / withdraw NLRI carried by the messages emitted so far
    fr.locs['ea'] = simp(fr.locs['ea'] + fr.locs['announced'].length())
    fr.locs['ew'] = simp(fr.locs['ew'] + fr.locs['withdraws'].length())


WL = '(value[19] * 256 + value[20])'
YIELDS_UPDATE = [
    # every generated UPDATE fits the negotiated maximum ...
    'len(value) <= negotiated.msg_size',
    # ... is a well-formed message ...
    'value[0:16] == Message.MARKER and value[16] * 256 + value[17] == len(value) and value[18] == 2',
    # ... and parses on its own: both length fields stay inside the message (UpdateCollection.split accepts it)
    f'23 + {WL} + (value[21 + {WL}] * 256 + value[22 + {WL}]) <= len(value)',
]

NLRI_ELEM = obj('exabgp.bgp.message.update.nlri.nlri:NLRI')

contract(
    UC,
    'UpdateCollection.messages',
    props=('C09', 'C18'),
    segment={'from': 'msg_size = negotiated.msg_size - 19 - 2 - 2 - len(attr)', 'to': 'all_mp_families = '},
    params={
        'self': obj('exabgp.bgp.message.update.collection:UpdateCollection'),
        'negotiated': obj(None, msg_size=int_(4096, 65535)),
        'attr': bytes_(0, None),
        'has_v4': bool_(),
        'has_mp': bool_(),
        'v4_announces': seq(NLRI_ELEM),
        'v4_withdraws': seq(NLRI_ELEM),
        'include_withdraw': bool_(),
        'packed_size': const(0),
    },
    ghost={'ea': const(0), 'ew': const(0)},
    setup=_setup_messages_v4,
    requires=[
        'negotiated.msg_size == 4096 or negotiated.msg_size == 65535',
        'has_v4 or has_mp',  # established by the early return of the abstracted prefix
        'psum_a(0) == 0 and psum_w(0) == 0',  # definition of the prefix sums
    ],
    callees={'nlri.pack_nlri': _pack_nlri_of_elem},
    loops={
        3: {
            'index': 'ia',
            'inv': [
                'announced_size == len(announced) and withdraws_size == len(withdraws) and withdraws_size == 0',
                'announced_size + withdraws_size <= msg_size',
                'ea + announced_size == psum_a(ia) and ew == 0',
            ],
            'unfold': ['psum_a(ia + 1) == psum_a(ia) + plen_a(ia)'],
            'modifies': ['ea', 'ew'],
        },
        4: {
            'index': 'iw',
            'inv': [
                'announced_size == len(announced) and withdraws_size == len(withdraws)',
                'announced_size + withdraws_size <= msg_size',
                'ea + announced_size == psum_a(len(v4_announces))',
                'ew + withdraws_size == psum_w(iw)',
            ],
            'unfold': ['psum_w(iw + 1) == psum_w(iw) + plen_w(iw)'],
            'modifies': ['ea', 'ew'],
        },
    },
    yields=YIELDS_UPDATE,
    on_yield=_on_yield_v4,
    ensures=[
        # nothing is lost: all IPv4 announce (and, if asked, withdraw) NLRI bytes were emitted -- unless the attributes
        # leave no room (msg_size <= 0) or the NLRI at hand cannot fit even in an empty message.  For the ANNOUNCES the
        # property says so itself; for the WITHDRAWALS the two last disjuncts concede the recorded known finding
        # C09-withdrawal-lost-behind-oversized-attributes (a withdrawal needs no attribute) -- the bounded layer reports it
        '(ea == psum_a(len(v4_announces)) and (not include_withdraw or ew == psum_w(len(v4_withdraws)))) or msg_size <= 0 or packed_size > msg_size',
    ],
    notes=[
        'segment contract: the classification prefix of messages() (sorting, family filter, v4/MP split) is abstracted into arbitrary lists v4_announces / v4_withdraws; the MP section has its own segment contract',
    ],
    canaries=[
        ('if announced_size + withdraws_size + packed_size <= msg_size:\n                announced += packed', 'if announced_size + withdraws_size + packed_size <= msg_size + 1:\n                announced += packed'),
        ('msg_size = negotiated.msg_size - 19 - 2 - 2 - len(attr)', 'msg_size = negotiated.msg_size - 19 - 2 - len(attr)'),
        ('withdraws = bytes(packed)\n                withdraws_size = packed_size', 'withdraws = bytes(packed)\n                withdraws_size = 0'),
    ],
)


contract(
    UC,
    'UpdateCollection.messages#attributes-only',
    props=('C09',),
    # `announce attributes ...` without NLRI: the Empty NLRI case, decided before any size is computed
    segment={'from': 'has_v4 = v4_announces or v4_withdraws', 'to': 'include_defaults = True'},
    params={
        'self': obj('exabgp.bgp.message.update.collection:UpdateCollection', _attributes=bool_()),
        'negotiated': obj(None, msg_size=int_(4096, 65535)),
        'v4_announces': bool_(),
        'v4_withdraws': bool_(),
        'mp_announces': bool_(),
        'mp_withdraws': bool_(),
        'has_empty_nlri': bool_(),
    },
    requires=['negotiated.msg_size == 4096 or negotiated.msg_size == 65535'],
    callees={'self.attributes.pack_attribute': returns_fresh('bytes', label='attr')},
    yields=YIELDS_UPDATE,
    notes=['segment contract: the four route lists are abstracted into their truth value (all the segment asks of them); the packed attributes are ANY byte string'],
    canaries=[('if 19 + 2 + 2 + len(attr) > negotiated.msg_size:', 'if 19 + 2 + len(attr) > negotiated.msg_size:')],
)


# ------------------------------------------------------------------------------------------------ MP attributes (C09)

MPC = 'exabgp.bgp.message.update.nlri.collection:MPNLRICollection'
FAM = obj(None)


def _fresh_len(n, label):
    def h(it, args, kwargs, fr, node):
        v = it.ctx.fresh_bytes(label)
        it.ctx.assume(to_z3(v.length()) == n)
        return v

    return h


def _byteseq(it, name, minlen=1):
    """a symbolic list of non-empty byte strings"""
    ln = it.ctx.fresh(name + '!len')
    it.ctx.assume(ln >= 0)
    it.ctx.inputs[name] = ('seqlen', ln)

    def elem(i):
        l = _uf(f'{name}!plen', I, I)(to_z3(i))
        it.ctx.assume(l >= minlen)
        arr = _uf(f'{name}!parr', I, ARR)(to_z3(i))
        kk = z3.Int('k!b')
        it.ctx.assume(z3.ForAll([kk], z3.And(z3.Select(arr, kk) >= 0, z3.Select(arr, kk) <= 255), patterns=[z3.Select(arr, kk)]))
        return VBytes.view(arr, 0, l)

    return VSeq(ln, elem, name)


def _setup_unreach(it, fr):
    fr.locs['plen'] = VSpecFn(lambda it2, k: _uf('packed_nlris!plen', I, I)(to_z3(k)))
    fr.locs['psum'] = VSpecFn(lambda it2, k: _uf('packed_nlris!psum', I, I)(to_z3(k)))


def _on_yield_payload(it, fr, v):
    fr.locs['em'] = simp(fr.locs['em'] + fr.locs['payload'].length() - fr.locs['header_length'])


ATTR_OK = [
    # never larger than the room the caller gave
    'len(value) <= maximum',
    # RFC 4271 4.3 header: optional, extended length iff > 255, length field = value length
    'value[0] == (0x90 if len(payload) > 255 else 0x80) and value[1] == code',
    'len(value) == len(payload) + (4 if len(payload) > 255 else 3)',
    'implies(len(payload) <= 255, value[2] == len(payload))',
    'implies(len(payload) > 255, value[2] * 256 + value[3] == len(payload))',
    # and it carries at least one NLRI
    'len(payload) > header_length',
]
TOO_LARGE = '(header_length + len(packed_nlri) + (4 if header_length + len(packed_nlri) > 255 else 3) > maximum)'

contract(
    MC,
    'MPNLRICollection.packed_unreach_attributes',
    props=('C09',),
    segment={'from': 'header = self._afi.pack_afi() + self._safi.pack_safi()', 'to': None},
    params={
        'self': obj(MPC, _afi=FAM, _safi=FAM),
        'packed_nlris': custom(lambda it, name: _byteseq(it, 'packed_nlris')),
        'maximum': int_(None, 65535 - 23),
        'negotiated': obj(None),
        'packed_nlri': const(b''),
        'header_length': const(0),
        'code': const(15),
    },
    ghost={'em': const(0)},
    setup=_setup_unreach,
    requires=['psum(0) == 0'],
    callees={'self._afi.pack_afi': _fresh_len(2, 'afi'), 'self._safi.pack_safi': _fresh_len(1, 'safi')},
    loops={
        1: {
            'index': 'j',
            'inv': ['len(payload) >= header_length and header_length == 3', 'len(payload) == header_length or len(payload) + (4 if len(payload) > 255 else 3) <= maximum', 'em + len(payload) - header_length == psum(j)', 'payload[0:3] == header'],
            'unfold': ['psum(j + 1) == psum(j) + plen(j)'],
            'modifies': ['em'],
        }
    },
    yields=ATTR_OK + ['value[4 if len(payload) > 255 else 3:] == payload', 'payload[0:3] == header'],
    on_yield=_on_yield_payload,
    ensures=[f'em == psum(len(packed_nlris)) or {TOO_LARGE}'],
    notes=['segment contract: the filtering/packing prefix of packed_unreach_attributes is abstracted into an arbitrary list of non-empty byte strings'],
    canaries=[
        ('if self._attr_len(len(payload) + len(packed_nlri)) > maximum:', 'if self._attr_len(len(payload) + len(packed_nlri)) > maximum + 1:'),
        ('if self._attr_len(header_length + len(packed_nlri)) > maximum:', 'if self._attr_len(header_length) > maximum:'),
        ('payload = payload + packed_nlri', 'payload = payload'),
    ],
)


def _groups(it, args, kwargs, fr, node):
    """mpnlri.items(): arbitrary groups (next hop bytes of at most 48 bytes, list of non-empty packed NLRI)"""
    ctx = it.ctx
    n = ctx.fresh('groups!len')
    ctx.assume(n >= 0)
    ctx.inputs['groups'] = ('seqlen', n)

    def elem(g):
        nh = _uf('nh!arr', I, ARR)(to_z3(g))
        nl = _uf('nh!len', I, I)(to_z3(g))
        ctx.assume(z3.And(nl >= 0, nl <= 48))
        kk = z3.Int('k!b')
        ctx.assume(z3.ForAll([kk], z3.And(z3.Select(nh, kk) >= 0, z3.Select(nh, kk) <= 255), patterns=[z3.Select(nh, kk)]))
        glen = _uf('g!len', I, I)(to_z3(g))
        ctx.assume(glen >= 1)

        def nl_elem(j):
            l = _uf('g!plen', I, I, I)(to_z3(g), to_z3(j))
            ctx.assume(l >= 1)
            arr = _uf('g!parr', I, I, ARR)(to_z3(g), to_z3(j))
            ctx.assume(z3.ForAll([kk], z3.And(z3.Select(arr, kk) >= 0, z3.Select(arr, kk) <= 255), patterns=[z3.Select(arr, kk)]))
            return VBytes.view(arr, 0, l)

        return VTuple([VBytes.view(nh, 0, nl), VSeq(glen, nl_elem, f'group{g}')])

    return VSeq(n, elem, 'groups')


def _setup_reach(it, fr):
    fr.locs['plen'] = VSpecFn(lambda it2, g, k: _uf('g!plen', I, I, I)(to_z3(g), to_z3(k)))
    fr.locs['psum'] = VSpecFn(lambda it2, g, k: _uf('g!psum', I, I, I)(to_z3(g), to_z3(k)))
    fr.locs['glen'] = VSpecFn(lambda it2, g: _uf('g!len', I, I)(to_z3(g)))
    fr.locs['tsum'] = VSpecFn(lambda it2, g: _uf('g!tsum', I, I)(to_z3(g)))
    fr.locs['ngroups'] = VSpecFn(lambda it2: z3.Int('groups!len'))


contract(
    MC,
    'MPNLRICollection.packed_reach_attributes',
    props=('C09',),
    segment={'from': 'afi_bytes = self._afi.pack_afi()', 'to': None},
    params={
        'self': obj(MPC, _afi=FAM, _safi=FAM),
        'mpnlri': obj(None),
        'maximum': int_(None, 65535 - 23),
        'negotiated': obj(None),
        'packed_nlri': const(b''),
        'header_length': const(0),
        'code': const(14),
    },
    ghost={'em': const(0)},
    setup=_setup_reach,
    requires=['tsum(0) == 0'],
    callees={'self._afi.pack_afi': _fresh_len(2, 'afi'), 'self._safi.pack_safi': _fresh_len(1, 'safi'), 'mpnlri.items': _groups},
    loops={
        1: {
            'index': 'g',
            'inv': ['em == tsum(g)'],
            'unfold': ['tsum(g + 1) == tsum(g) + psum(g, glen(g))', 'psum(g, 0) == 0'],
            'modifies': ['em'],
        },
        2: {
            'index': 'j',
            'entry_lets': {'em0': 'em'},
            'inv': [
                'len(payload) >= header_length and header_length == len(header) and header_length >= 5',
                'len(payload) == header_length or len(payload) + (4 if len(payload) > 255 else 3) <= maximum',
                'em - em0 + len(payload) - header_length == psum(g, j)',
            ],
            'unfold': ['psum(g, j + 1) == psum(g, j) + plen(g, j)'],
            'modifies': ['em'],
        },
    },
    yields=ATTR_OK + ['value[4 if len(payload) > 255 else 3:] == payload'],
    on_yield=_on_yield_payload,
    ensures=[f'em == tsum(ngroups()) or {TOO_LARGE}'],
    notes=['segment contract: the next-hop grouping prefix of packed_reach_attributes is abstracted into arbitrary groups (next hop of at most 48 bytes, non-empty list of non-empty packed NLRI)'],
    canaries=[
        ('if self._attr_len(len(payload) + len(packed_nlri)) > maximum:', 'if self._attr_len(len(payload)) > maximum:'),
        ('if self._attr_len(header_length + len(packed_nlri)) > maximum:', 'if self._attr_len(header_length + len(packed_nlri)) > maximum + 3:'),
        ('header = afi_bytes + safi_bytes + bytes([len(nexthop)]) + nexthop + bytes([0])', 'header = afi_bytes + safi_bytes + bytes([len(nexthop)]) + nexthop'),
    ],
)


# ------------------------------------------------------------------------------------------------ messages(): MP section (C09)

assert 'len(value) <= maximum' in REG.contracts[(MC, 'MPNLRICollection.packed_reach_attributes')].yields
assert 'len(value) <= maximum' in REG.contracts[(MC, 'MPNLRICollection.packed_unreach_attributes')].yields


def _attr_gen(label):
    """<collection>.packed_(un)reach_attributes(negotiated, maximum) at its call site: a finite sequence of attributes,
    each within `maximum` (clause yields:0 of the generator's own contract) and at least a header long"""

    def h(it, args, kwargs, fr, node):
        ctx = it.ctx
        maximum = args[1]
        n = ctx.fresh(label + '!count')
        ctx.assume(n >= 0)
        base = ctx.fresh(label + '!gen')

        def elem(i):
            l = _uf(label + '!len', I, I, I)(base, to_z3(i))
            ctx.assume(z3.And(l >= 4, l <= to_z3(maximum)))
            arr = _uf(label + '!arr', I, I, ARR)(base, to_z3(i))
            kk = z3.Int('k!b')
            ctx.assume(z3.ForAll([kk], z3.And(z3.Select(arr, kk) >= 0, z3.Select(arr, kk) <= 255), patterns=[z3.Select(arr, kk)]))
            return VBytes.view(arr, 0, l)

        return VSeq(n, elem, label)

    return h


def _mkobj(it, args, kwargs, fr, node):
    return VObj(None, {}, 'mpcollection')


contract(
    UC,
    'UpdateCollection.messages#mp',
    props=('C09', 'C18', 'C11'),
    segment={'from': 'for family in all_mp_families:', 'to': None},
    params={
        'self': obj('exabgp.bgp.message.update.collection:UpdateCollection'),
        'negotiated': obj(None, msg_size=int_(4096, 65535)),
        'attr': bytes_(0, None),
        'msg_size': int_(1, None),
        'withdraws': bytes_(0, None),
        'announced': bytes_(0, None),
        'all_mp_families': seq(tuple_(int_(0, 65535), int_(0, 255))),
        'mp_announces': obj(None),
        'mp_withdraws': obj(None),
        'include_withdraw': bool_(),
    },
    requires=[
        # exit facts of the IPv4 section (its first statement and loop invariants, proved there)
        'negotiated.msg_size == 4096 or negotiated.msg_size == 65535',
        'msg_size == negotiated.msg_size - 19 - 2 - 2 - len(attr)',
        'len(withdraws) + len(announced) <= msg_size',
    ],
    callees={
        'mp_announces.get': _mkobj,
        'mp_withdraws.get': _mkobj,
        'MPNLRICollection.from_routed': _mkobj,
        'MPNLRICollection': _mkobj,
        'mp_announce.packed_reach_attributes': _attr_gen('reach'),
        'mp_withdraw.packed_unreach_attributes': _attr_gen('unreach'),
    },
    loops={
        5: {'index': 'f', 'inv': ['len(withdraws) + len(announced) <= msg_size']},
        6: {
            'index': 'r',
            'entry_lets': {'room1': 'msg_size - len(withdraws) - len(announced)'},
            'inv': ['len(mp_reach) <= room1', 'len(withdraws) + len(announced) <= msg_size - room1', 'len(mp_unreach) == 0'],
        },
        7: {
            'index': 'u',
            'entry_lets': {'room2': 'msg_size - len(withdraws) - len(announced) - len(mp_reach)'},
            'inv': ['len(mp_unreach) <= room2', 'len(withdraws) + len(announced) + len(mp_reach) <= msg_size - room2'],
        },
    },
    # ... and no message of this section says nothing: a message without withdrawn routes, attributes and NLRI is the
    # End-of-RIB of IPv4 unicast, which nobody asked for here (C11: it reached the peer before the first route of the table)
    yields=YIELDS_UPDATE + ['len(value) > 23'],
    notes=['segment contract: entry state = exit state of the IPv4 section; the per-family MPNLRICollection objects are opaque and their attribute generators are used through clause yields:0 of their own contracts'],
    canaries=[
        # (the former first canary, dropping mp_reach from the room of MP_UNREACH, became an equivalent mutant when the
        # withdraws got messages of their own: mp_reach is empty there)
        ('                    msg_size - len(withdraws + announced + mp_reach),', '                    msg_size + 1 - len(withdraws + announced + mp_reach),'),
        ('for mprnlri in mp_announce.packed_reach_attributes(negotiated, msg_size - len(withdraws + announced)):', 'for mprnlri in mp_announce.packed_reach_attributes(negotiated, msg_size):'),
    ],
)
