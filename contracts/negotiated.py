"""C07 (and the negotiated parts of C01/C06/C12) — open/capability/negotiated.py"""

import z3
from .common import *

NG = 'bgp/message/open/capability/negotiated.py'
CODES = {'MP': 0x01, 'RR': 0x02, 'NH': 0x05, 'EXT': 0x06, 'ASN4': 0x41, 'ADDPATH': 0x45, 'ERR': 0x46, 'LLNH': 0x4D, 'OPER': 0xB9}


def _ann(side):
    def h(it, args, kwargs, fr, node):
        code = args[0]
        return z3.Bool(f'{side}_announces_{int(code):#x}')

    return h


def _get(side):
    def h(it, args, kwargs, fr, node):
        code = int(args[0])
        if code == 0x41:
            # the ASN4 capability object is an ASN carrying the true AS number
            ann = z3.Bool(f'{side}_announces_0x41')
            from exabgp.bgp.message.open.asn import ASN

            # present iff announced; when present it is an ASN carrying the true AS number
            return VObj(None, {'int!': z3.Int(f'{side}_asn4_value'), 'none!': z3.Not(ann), 'bool!': ann, 'isinstance!': lambda c: (ann if (isinstance(c, type) and issubclass(ASN, c)) else False)}, f'{side}.asn4')
        raise Unsupported(f'capabilities.get({code:#x})')

    return h


def _famseq(side, what):
    """the family list of a MultiProtocol / NextHop capability: abstract list with an `in` predicate"""
    from exabgp.bgp.message.open.capability.mp import MultiProtocol
    from exabgp.bgp.message.open.capability.nexthop import NextHop

    def mk(it):
        n = z3.Int(f'{side}_{what}_len')
        it.ctx.assume(n >= 0)
        fid = z3.Function(f'{side}_{what}_at', I, I)

        def elem(i):
            return VObj(None, {'int!': fid(to_z3(i)), 'id!': fid(to_z3(i))}, f'{side}.{what}[{i}]')

        def contains(item):
            v = item.fields['int!'] if isinstance(item, VObj) else item
            if isinstance(v, (tuple, VTuple)):
                # a literal family (afi, safi): its identity in the abstraction is afi * 256 + safi
                a, b = (v.items if isinstance(v, VTuple) else v)
                v = int(a) * 256 + int(b)
            return z3.Function(f'in_{side}_{what}', I, B)(to_z3(v))

        return VSeq(n, elem, f'{side}_{what}', isinstance_of=(MultiProtocol if what == 'mp' else NextHop,), contains=contains)

    return mk


def _getitem(side):
    def h(it2, o, k):
        code = int(k)
        if code == 0x01:
            return _famseq(side, 'mp')(it2)
        if code == 0x05:
            return _famseq(side, 'nh')(it2)
        raise Unsupported(f'capabilities[{code:#x}]')

    return h


def _caps(side):
    def build(it, name):
        return VObj(None, {'getitem!': _getitem(side)}, name)

    return custom(build)


def _append(kind):
    def h(it, args, kwargs, fr, node):
        item = args[0]
        ctx = it.ctx
        if isinstance(item, (tuple, VTuple)):
            # the family a session WITHOUT the capability carries (RFC 4271): counted apart, and it can only be IPv4 unicast
            a, b = (item.items if isinstance(item, VTuple) else item)
            ctx.oblige(f'{kind}:implied-family-is-ipv4-unicast', 'post', z3.BoolVal(int(a) == 1 and int(b) == 1), 'the only family a session carries without Multiprotocol Extensions is IPv4 unicast')
            f = fr
            while f is not None and 'nimp' not in f.locs:
                f = f.parent
            f.locs['nimp'] = simp(f.locs['nimp'] + 1)
            return None
        v = to_z3(item.fields['int!'])
        # soundness of the intersection: what is appended is an element of the received list that the sent list holds
        ctx.oblige(f'{kind}:member-of-sent', 'post', z3.Function(f'in_sent_{kind}', I, B)(v), f'every negotiated {kind} entry was advertised by us')
        idx = fr.lookup('fi' if kind == 'mp' else 'ni')
        ctx.oblige(f'{kind}:element-of-received', 'post', v == z3.Function(f'recv_{kind}_at', I, I)(to_z3(idx)), f'every negotiated {kind} entry is the current element of the received list')
        g = 'nfam' if kind == 'mp' else 'nnh'
        f = fr
        while f is not None and g not in f.locs:
            f = f.parent
        f.locs[g] = simp(f.locs[g] + 1)
        return None

    return h


def B_(name):
    return z3.Bool(name)


SF = {
    's': VSpecFn(lambda it, code: z3.Bool(f'sent_announces_{int(code):#x}')),
    'r': VSpecFn(lambda it, code: z3.Bool(f'recv_announces_{int(code):#x}')),
    'r_asn4_value': VSpecFn(lambda it: z3.Int('recv_asn4_value')),
    's_asn4_value': VSpecFn(lambda it: z3.Int('sent_asn4_value')),
    'cnt_mp': VSpecFn(lambda it, k: z3.Function('cnt_mp', I, I)(to_z3(k))),
    'cnt_nh': VSpecFn(lambda it, k: z3.Function('cnt_nh', I, I)(to_z3(k))),
    'both_mp': VSpecFn(lambda it, k: z3.Function('in_sent_mp', I, B)(z3.Function('recv_mp_at', I, I)(to_z3(k)))),
    'both_nh': VSpecFn(lambda it, k: z3.Function('in_sent_nh', I, B)(z3.Function('recv_nh_at', I, I)(to_z3(k)))),
    'recv_mp_len': VSpecFn(lambda it: z3.Int('recv_mp_len')),
    'sent_has_ipv4_unicast': VSpecFn(lambda it: z3.Function('in_sent_mp', I, B)(z3.IntVal(257))),
    'recv_nh_len': VSpecFn(lambda it: z3.Int('recv_nh_len')),
}

OPEN_S = obj(None, asn=int_(0, 65535), hold_time=int_(0, 65535), capabilities=_caps('sent'))
OPEN_R = obj(None, asn=int_(0, 65535), hold_time=int_(0, 65535), capabilities=_caps('recv'))

contract(
    NG,
    'Negotiated._negotiate',
    props=('C07', 'C01', 'C06', 'C12'),
    segment={'from': 'assert self.sent_open is not None', 'to': 'self.paths_limit = {}'},
    params={
        'self': obj(
            'exabgp.bgp.message.open.capability.negotiated:Negotiated',
            sent_open=OPEN_S,
            received_open=OPEN_R,
            msg_size=const(4096),
            refresh=const(1),
            addpath=obj(None),
            holdtime=const(0),
            asn4=const(False),
            operational=const(False),
            local_as=const(0),
            peer_as=const(0),
            families=const(None),
            nexthop=const(None),
            linklocal_nexthop=const(False),
        )
    },
    ghost={'nfam': const(0), 'nnh': const(0), 'nimp': const(0)},
    specfns=SF,
    requires=['cnt_mp(0) == 0 and cnt_nh(0) == 0', '0 <= r_asn4_value() and 0 <= s_asn4_value()'],
    callees={
        'sent_capa.announced': _ann('sent'),
        'recv_capa.announced': _ann('recv'),
        'sent_capa.get': _get('sent'),
        'recv_capa.get': _get('recv'),
        'self.addpath.setup': noop,
        'HoldTime': lambda it, a, k, fr, n: a[0],
        'self.families.append': _append('mp'),
        'self.nexthop.append': _append('nh'),
    },
    pure_calls=('sent_capa.announced', 'recv_capa.announced', 'sent_capa.get', 'recv_capa.get'),
    loops={
        0: {'index': 'fi', 'inv': ['nfam == cnt_mp(fi)'], 'unfold': ['cnt_mp(fi + 1) == cnt_mp(fi) + (1 if both_mp(fi) else 0)'], 'modifies': ['nfam']},
        1: {'index': 'ni', 'inv': ['nnh == cnt_nh(ni)', 'nfam == (cnt_mp(recv_mp_len()) if s(0x01) and r(0x01) else 0)'], 'unfold': ['cnt_nh(ni + 1) == cnt_nh(ni) + (1 if both_nh(ni) else 0)'], 'modifies': ['nnh']},
    },
    lets={'S': 'self.sent_open', 'R': 'self.received_open'},
    ensures=[
        # RFC 4271 4.2: the smaller of the two hold times
        'self.holdtime == (S.hold_time if S.hold_time < R.hold_time else R.hold_time)',
        # options are in force iff BOTH sides advertised them
        'self.asn4 == (s(0x41) and r(0x41))',
        'self.operational == (s(0xB9) and r(0xB9))',
        'self.linklocal_nexthop == (s(0x4D) and r(0x4D))',
        # RFC 8654: 65535 iff both advertised extended message, else 4096
        'self.msg_size == (65535 if s(0x06) and r(0x06) else 4096)',
        # RFC 7313 / 2918 route refresh flavour
        'self.refresh == (4 if s(0x46) and r(0x46) else 2 if s(0x02) and r(0x02) else 1)',
        # RFC 6793: both TRUE AS numbers
        'self.peer_as == (r_asn4_value() if R.asn == 23456 and s(0x41) and r(0x41) else R.asn)',
        'self.local_as == (s_asn4_value() if S.asn == 23456 and s(0x41) else S.asn)',
        # families / extended next hop: exactly the entries of the received list that we advertised too
        'nfam == (cnt_mp(recv_mp_len()) if s(0x01) and r(0x01) else 0)',
        'nnh == (cnt_nh(recv_nh_len()) if s(0x05) and r(0x05) else 0)',
        # a peer WITHOUT the Multiprotocol capability is a plain BGP-4 speaker: the session carries IPv4 unicast (RFC 4271;
        # RFC 4760 section 8 makes the capability the way to agree on anything else) -- iff we speak it ourselves
        'nimp == (1 if (not r(0x01)) and ((not s(0x01)) or sent_has_ipv4_unicast()) else 0)',
    ],
    notes=['segment contract: up to the ADD-PATH paths-limit and multisession handling, which are not under contract', 'Capabilities objects are abstract: announced(code) is a boolean per (side, code); MultiProtocol / NextHop lists are abstract sequences with a membership predicate'],
    canaries=[
        ('self.holdtime = HoldTime(min(self.sent_open.hold_time, self.received_open.hold_time))', 'self.holdtime = HoldTime(max(self.sent_open.hold_time, self.received_open.hold_time))'),
        ("        if recv_capa.announced(Capability.CODE.EXTENDED_MESSAGE) and sent_capa.announced(\n            Capability.CODE.EXTENDED_MESSAGE,\n        ):", '        if recv_capa.announced(Capability.CODE.EXTENDED_MESSAGE):'),
        ('                    if family in sent_mp:\n                        self.families.append(family)', '                    self.families.append(family)'),
        ('if self.received_open.asn == AS_TRANS and self.asn4:', 'if self.asn4:'),
    ],
)


# ------------------------------------------------------------------------------------------------ validate: refusals (C07, C10)


def _rid(it, args, kwargs, fr, node):
    # RouterID('0.0.0.0'): the all-zero identifier
    return VObj(None, {'int!': 0}, 'rid0')


contract(
    NG,
    'Negotiated.validate',
    props=('C07', 'C10'),
    segment={'from': 'assert self.sent_open is not None', 'to': 'sent_mp = self.sent_open.capabilities.get'},
    params={
        'self': obj(
            'exabgp.bgp.message.open.capability.negotiated:Negotiated',
            sent_open=obj(None),
            received_open=obj(None, asn=int_(0, 65535), hold_time=int_(0, 65535), router_id=obj(None, **{'int!': int_(0, 0xFFFFFFFF)})),
            peer_as=int_(0, 0xFFFFFFFF),
            holdtime=int_(0, 65535),
            multisession=const(False),
        ),
        'neighbor': obj(None, session=obj(None, peer_as=int_(0, 0xFFFFFFFF), local_as=int_(1, 0xFFFFFFFF), router_id=obj(None, **{'int!': int_(1, 0xFFFFFFFF)}))),
    },
    callees={'RouterID': _rid},
    # c_as: Bad Peer AS -- the TRUE AS of the peer (self.peer_as: the four octet one when it sent it) differs from the configured
    # one, or is 0 (RFC 7607).  c_coll: iBGP is "the peer's true AS is ours", NOT "the two octet field equals ours" (that
    # field is AS_TRANS for a large AS; the contract used to copy that comparison from the code, and with it the defect).
    lets={'R': 'self.received_open', 'N': 'neighbor.session', 'c_as': 'self.peer_as == 0 or (neighbor.session.peer_as != 0 and self.peer_as != neighbor.session.peer_as)', 'c_rid0': 'int(self.received_open.router_id) == 0', 'c_coll': 'self.peer_as == neighbor.session.local_as and int(self.received_open.router_id) == int(neighbor.session.router_id)', 'c_hold': '0 < self.received_open.hold_time and self.received_open.hold_time < 3'},
    ensures=[
        # RFC 4271 6.2: Bad Peer AS
        'implies(c_as, result is not None and result[0] == 2 and result[1] == 2)',
        # RFC 6286 / 4271 6.2: Bad BGP Identifier (zero, or our own on an iBGP session)
        'implies(not c_as and (c_rid0 or c_coll), result is not None and result[0] == 2 and result[1] == 3)',
        # RFC 4271 6.2: Unacceptable Hold Time (1 or 2 seconds)
        'implies(not c_as and not c_rid0 and not c_coll and c_hold, result is not None and result[0] == 2 and result[1] == 6)',
        # and an acceptable OPEN is not refused
        'implies(not c_as and not c_rid0 and not c_coll and not c_hold, result is None)',
    ],
    notes=['segment contract: the refusal decisions of validate(); the family-mismatch bookkeeping after them is not under contract'],
    canaries=[('self.received_open.hold_time < HoldTime.MIN', 'self.received_open.hold_time <= HoldTime.MIN')],
)

# ------------------------------------------------------------------------------------------------ RequirePath.setup (C07, C01)
# RFC 7911 section 4: "send" of one side pairs with "receive" of the other.  The body of the per-family loop is taken as
# a segment: `send.get(k)` / `receive.get(k)` are the modes the two OPENs carry for the family (any value 0..3), and the
# values stored in self._send[k] / self._receive[k] are captured through the dictionary write.
OURS = z3.Int('addpath_ours')
THEIRS = z3.Int('addpath_theirs')


def _mode(sym):
    def h(it, args, kwargs, fr, node):
        it.ctx.assume(z3.And(sym >= 0, sym <= 3))
        it.ctx.inputs.setdefault(str(sym), ('int', sym))
        return sym

    return h


def _store(name):
    def build(it, pname):
        def setitem(it2, o, k, v):
            f = it2.ctx.root_frame if hasattr(it2.ctx, 'root_frame') else None
            it2.ctx.stored = getattr(it2.ctx, 'stored', {})
            it2.ctx.stored[name] = v
            return None

        return VObj(None, {'setitem!': setitem}, pname)

    return custom(build)


def _stored(name):
    return VSpecFn(lambda it: to_z3(truthy(it.ctx, getattr(it.ctx, 'stored', {}).get(name))) if name in getattr(it.ctx, 'stored', {}) else z3.BoolVal(False))


from pyvc.interp import truthy  # noqa: E402

contract(
    NG,
    'RequirePath.setup#family',
    props=('C07', 'C01'),
    segment={'from': 'here_will_send = bool('},  # to the end of the loop body
    params={'self': obj(None, CANT=const(0), RECEIVE=const(1), SEND=const(2), _send=_store('send'), _receive=_store('receive')), 'k': int_(0, 1 << 24), 'send': obj(None), 'receive': obj(None)},
    callees={'send.get': _mode(OURS), 'receive.get': _mode(THEIRS)},
    specfns={'ours': VSpecFn(lambda it: OURS), 'theirs': VSpecFn(lambda it: THEIRS), 'stored_send': _stored('send'), 'stored_receive': _stored('receive')},
    ensures=[
        # we send path identifiers for the family iff WE advertised send (bit 2) and THEY advertised receive (bit 1)
        'stored_send() == ((ours() == 2 or ours() == 3) and (theirs() == 1 or theirs() == 3))',
        # we accept them iff WE advertised receive and THEY advertised send
        'stored_receive() == ((ours() == 1 or ours() == 3) and (theirs() == 2 or theirs() == 3))',
    ],
    canaries=[('they_will_recv = bool(receive.get(k, self.CANT) & self.RECEIVE)', 'they_will_recv = bool(receive.get(k, self.CANT) & self.SEND)')],
)
