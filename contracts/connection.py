"""C06 — reactor/network/connection.py: framing is independent of TCP segmentation.

Ghost state: `stream` (the infinite byte stream the kernel will deliver) and `pos` (bytes consumed so far).
The segmentation is the universally quantified return value of the recv callee."""

import z3
from .common import *
from pyvc.interp import Raise, exc
import socket

CONN = dict(
    io=obj(None, **{'bool!': bool_()}),
    msg_size=int_(19, 65535),
    defensive=bool_(),
    peer=str_(),
)


def ghost_stream(it, name):
    arr = it.ctx.fresh('stream!a', ARR)
    it.ctx.byte_axiom(arr)
    ln = it.ctx.fresh('stream!len')
    v = VBytes.view(arr, 0, ln)
    v.unbounded = True
    it.ctx.inputs['stream'] = ('stream', v)
    return v


def _recv_into(it, args, kwargs, fr, node):
    """loop.sock_recv_into(sock, buf) / sock.recv_into(buf): delivers the next n bytes of the stream for SOME n in 0..len(buf)
    (0 = EOF), or raises OSError / socket.timeout having consumed nothing."""
    ctx = it.ctx
    buf = args[-1]
    if not isinstance(buf, VBytes) or len(buf.pieces) != 1 or not isinstance(buf.pieces[0].a, VBuf):
        raise Unsupported('recv_into target is not a view of a bytearray')
    p = buf.pieces[0]
    which = ctx.fresh('recv!outcome')
    ctx.assume(z3.And(which >= 0, which <= 2))
    if ctx.branch(which == 1):
        raise Raise(VExc(socket.timeout, ('timed out',)))
    if ctx.branch(which == 2):
        raise Raise(VExc(OSError, (ctx.fresh('errno'), 'os error')))
    n = ctx.fresh('nbytes')
    ctx.assume(z3.And(n >= 0, to_z3(n) <= to_z3(p.len)))
    stream = fr.lookup('stream')
    pos = fr.lookup('pos')
    sarr, soff = stream.as_array()
    k = z3.Int('k!w')
    b = p.a
    b.arr = z3.Lambda([k], z3.If(z3.And(k >= to_z3(p.off), k < to_z3(p.off) + n), z3.Select(sarr, to_z3(soff) + to_z3(pos) + k - to_z3(p.off)), z3.Select(b.arr, k)))
    _set_ghost(fr, 'pos', simp(pos + n))
    return n


def _set_ghost(fr, name, v):
    f = fr
    while f is not None:
        if name in f.locs:
            f.locs[name] = v
            return
        f = f.parent
    fr.locs[name] = v


def _close(it, args, kwargs, fr, node):
    me = fr.lookup('self')
    me.fields['io'] = None
    return None


def _loopobj(it, args, kwargs, fr, node):
    return VObj(None, {}, 'loop')


REG.mark_inline('reactor/network/connection.py', '_default_length_validator')

READER_CALLEES = {
    'self.close': _close,
    'asyncio.get_event_loop': _loopobj,
    'loop.sock_recv_into': _recv_into,
    'self.io.recv_into': _recv_into,
    'errstr': returns_fresh('str', label='errstr'),
    'self.name': returns_fresh('str', label='name'),
    'self.session': returns_fresh('str', label='session'),
}


def _view_of_number(it, cfr):
    """result shape of _reader_async when used as a callee: a fresh view of exactly `number` bytes"""
    number = cfr.locs['number']
    arr = it.ctx.fresh('read!a', ARR)
    it.ctx.byte_axiom(arr)
    return VBytes.view(arr, 0, number, 'memoryview')


def _advance_pos(it, cfr, fr):
    _set_ghost(fr, 'pos', simp(fr.lookup('pos') + cfr.locs['number']))
    cfr.locs['pos'] = fr.lookup('pos')


contract(
    'reactor/network/connection.py',
    'Connection._reader_async',
    props=('C06', 'C03'),
    params={'self': obj('exabgp.reactor.network.connection:Connection', **CONN), 'number': int_(0, 65535)},
    ghost={'stream': custom(ghost_stream), 'pos': int_(0)},
    callees=READER_CALLEES,
    loops={
        0: {
            'inv': [
                '0 <= offset and offset <= number',
                'pos == old(pos) + offset',
                'forall(lambda k: buffer[k] == stream[old(pos) + k], 0, offset)',
                'len(view) == number',
            ],
            'decreases': 'number - offset',
            'modifies': ['pos', 'buffer'],
        }
    },
    raises=[
        {'exc': 'NotConnected', 'iff': 'not old(self.io)'},
        {'exc': 'LostConnection'},
        {'exc': 'TooSlowError'},
        {'exc': 'NetworkError'},
    ],
    ensures=[
        # exactly the next `number` bytes of the stream, however recv split them
        'len(result) == number',
        'forall(lambda k: result[k] == stream[old(pos) + k], 0, number)',
        # and not one byte more was consumed
        'pos == old(pos) + number',
    ],
    result_value=_view_of_number,
    effect=_advance_pos,
    canaries=[
        ('offset += nbytes', 'offset += 1'),
        ('view[offset:]', 'view[0:]'),
        ('while offset < number:', 'while offset < number - 1:'),
        ('buffer = bytearray(number)', 'buffer = bytearray(number + 1)'),
    ],
)

HDR = "header[16] * 256 + header[17]"

contract(
    'reactor/network/connection.py',
    'Connection.reader_async',
    props=('C06', 'C10', 'C03'),
    params={'self': obj('exabgp.reactor.network.connection:Connection', **CONN)},
    ghost={'stream': custom(ghost_stream), 'pos': int_(0)},
    lets={
        'h': 'stream[pos:pos + 19]',
        'L': 'stream[pos + 16] * 256 + stream[pos + 17]',
        'T': 'stream[pos + 18]',
        'marker_ok': 'stream[pos:pos + 16] == Message.MARKER',
        # RFC 4271 4.1-4.5 minimum lengths; RFC 8654 section 4: the extended maximum applies to every message EXCEPT OPEN
        # and KEEPALIVE, which stay within 4096 (the first version of this line had no upper bound for OPEN: the code's)
        'type_ok': '(29 <= L and L <= 4096 if T == 1 else L >= 23 if T == 2 else L >= 21 if T == 3 else L == 19 if T == 4 else L == 23 if T == 5 else L >= 19)',
    },
    raises=[
        {'exc': 'NotConnected', 'iff': 'not old(self.io)'},
        {'exc': 'LostConnection'},
        {'exc': 'TooSlowError'},
        {'exc': 'NetworkError'},
    ],
    ensures=[
        # the header handed back is always the next 19 bytes of the stream
        'result[2] == h',
        # marker fault -> 1/1, nothing read beyond the header
        'implies(not marker_ok, result[4] is not None and result[4].code == 1 and result[4].subcode == 1 and pos == old(pos) + 19 and len(result[3]) == 0)',
        # length fault -> 1/2 (below 19, above the negotiated maximum, or outside the bounds of its type); no body byte is read
        'implies(marker_ok and (L < 19 or L > self.msg_size or not type_ok), result[4] is not None and result[4].code == 1 and result[4].subcode == 2 and pos == old(pos) + 19 and len(result[3]) == 0)',
        # otherwise: exactly one complete message, in order
        'implies(marker_ok and 19 <= L and L <= self.msg_size and type_ok, result[4] is None and result[0] == L and result[1] == T and len(result[3]) == L - 19 and pos == old(pos) + L)',
        'implies(marker_ok and 19 <= L and L <= self.msg_size and type_ok, forall(lambda k: result[3][k] == stream[old(pos) + 19 + k], 0, L - 19))',
    ],
    canaries=[
        ('length > self.msg_size', 'length >= self.msg_size'),
        ('header[:16] != Message.MARKER', 'header[:15] != Message.MARKER[:15]'),
        ('number = length - Message.HEADER_LEN', 'number = length - Message.HEADER_LEN + 1'),
        ("int.from_bytes(header[16:18], 'big')", "int.from_bytes(header[17:18], 'big')"),
        ('NotifyError(1, 2, report)', 'NotifyError(1, 1, report)'),
    ],
)


# ------------------------------------------------------------------------------------------------ replay on the real code


def run_reader_native(stream: bytes, msg_size: int, chunks, what='reader_async'):
    """drive the REAL Connection.reader_async over a socketpair, delivering `stream` in the given chunk sizes"""
    import asyncio, socket as _s
    from exabgp.reactor.network.connection import Connection
    from exabgp.protocol.family import AFI

    async def main():
        a, b = _s.socketpair()
        a.setblocking(False)
        b.setblocking(False)
        conn = Connection.__new__(Connection)
        conn.io = a
        conn.msg_size = msg_size
        conn.defensive = False
        conn.peer = 'replay'
        conn.local = 'replay'
        conn.afi = AFI.ipv4
        conn.id = 0
        loop = asyncio.get_event_loop()

        async def feeder():
            pos = 0
            k = 0
            while pos < len(stream):
                n = chunks[k % len(chunks)]
                k += 1
                await loop.sock_sendall(b, stream[pos : pos + n])
                pos += n
                await asyncio.sleep(0)

        f = asyncio.ensure_future(feeder())
        try:
            res = await asyncio.wait_for(conn.reader_async(), 2)
        except asyncio.TimeoutError:
            # the reader waits for bytes the stream does not hold (it read past the message): an observable outcome
            res = (-1, -1, b'', b'', None)
        finally:
            await f
        await asyncio.sleep(0.01)
        left = 0
        try:
            while True:
                d = a.recv(1 << 20)
                if not d:
                    break
                left += len(d)
        except (BlockingIOError, OSError):
            pass
        a.close()
        b.close()
        length, typ, header, body, err = res
        return length, typ, bytes(header), bytes(body), (None if err is None else (err.code, err.subcode)), len(stream) - left

    return asyncio.new_event_loop().run_until_complete(main())


def replay_reader(reg, c, model, clause):
    from spec.framing import frame_one

    head = bytes.fromhex((model.get('stream') or {}).get('from_pos_256', ''))
    msg_size = int(model.get('self.msg_size', model.get('self.connection.msg_size', 4096)))
    stream = head + bytes(70000)
    out = {'function': f'{c.file}:{c.qualname}', 'clause': clause, 'model': model, 'confirmed': False, 'tried': []}
    cons, l, t, h, b, e = frame_one(stream, msg_size)
    for chunks in ([len(stream)], [1], [7, 1, 19, 4096]):
        try:
            got = run_reader_native(stream[: max(cons, 19) + 40], msg_size, chunks)
        except Exception as ex:  # noqa
            out['tried'].append({'chunks': chunks[:4], 'error': repr(ex)})
            continue
        exp = (l, t, h, b, e, cons)
        ok = got == exp
        out['tried'].append({'chunks': chunks[:4], 'agrees_with_spec': ok})
        if not ok:
            out['confirmed'] = True
            out['input'] = {'stream_hex': stream[: max(cons, 19)].hex()[:600], 'msg_size': msg_size, 'chunks': chunks[:4]}
            out['expected'] = {'length': l, 'type': t, 'error': e, 'consumed': cons, 'body_len': len(b)}
            out['observed'] = {'length': got[0], 'type': got[1], 'error': got[4], 'consumed': got[5], 'body_len': len(got[3])}
            break
    return out


REG.contracts[('reactor/network/connection.py', 'Connection.reader_async')].replay = replay_reader
REG.contracts[('reactor/network/connection.py', 'Connection._reader_async')].replay = replay_reader
