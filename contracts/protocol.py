"""C06 / C10 / C03 — reactor/protocol.py read_message, bgp/message/message.py Message.unpack"""

import z3
from .common import *
from .connection import ghost_stream, _set_ghost, CONN
from pyvc.interp import Raise

REGISTERED = '(1, 2, 3, 4, 5, 6)'


def _msg_obj(it, msg_id, label='message'):
    """abstract decoded message: TYPE is the one-byte type code; Update-ness follows the code"""
    from exabgp.bgp.message import Update, Notification

    o = VObj(None, {}, label)
    o.fields['TYPE'] = VBytes([Piece('byte', msg_id)]) if is_sym(msg_id) else VBytes.lit(bytes([msg_id]))
    is_update = simp(to_z3(msg_id) == 2)
    o.fields['isinstance!'] = lambda c: (is_update if c is Update else (simp(to_z3(msg_id) == 3) if c is Notification else False))
    attrs = VObj(None, {'contains!': lambda it2, oo, item: it.ctx.fresh('has_internal_attr', z3.BoolSort())}, 'attributes')
    o.fields['data'] = VObj(None, {'attributes': attrs}, 'data')
    o.fields['exc!'] = VExc(Notification, (o,))
    return o


def _unpack_message(it, args, kwargs, fr, node):
    """<registered class>.unpack_message(data, negotiated): returns a message of that type, or raises Notify, or (not
    excluded here; C03 proves the decoders one by one) any other exception"""
    ctx = it.ctx
    which = ctx.fresh('decode!outcome')
    ctx.assume(z3.And(which >= 0, which <= 2))
    if ctx.branch(which == 1):
        raise Raise(VExc(fr.globs.get('Notify') or REG.resolve_exc('Notify'), (ctx.fresh('n!code'), ctx.fresh('n!subcode'), 'decode error')))
    if ctx.branch(which == 2):
        raise Raise(VExc(ValueError, ('decoder bug',)))
    return _msg_obj(it, fr.lookup('message'))


contract(
    'bgp/message/message.py',
    'Message.unpack',
    props=('C06', 'C03', 'C10'),
    params={'cls': const(None), 'message': int_(0, 255), 'data': bytes_(0, 65535 - 19, 'memoryview'), 'negotiated': obj(None)},
    setup=lambda it, fr: fr.locs.__setitem__('cls', REG.resolve_class('exabgp.bgp.message.message:Message')),
    callees={'cls.klass(message).unpack_message': _unpack_message},
    raises=[
        # RFC 4271 6.1: an unrecognised Type is Bad Message Type
        {'exc': 'Notify', 'args': '(1, 3)', 'iff': f'message not in {REGISTERED}'},
        {'exc': 'Notify', 'when': f'message in {REGISTERED}', 'cover': False},
        {'exc': 'Exception', 'when': f'message in {REGISTERED}', 'cover': False},
    ],
    ensures=[f'message in {REGISTERED}', 'result.TYPE[0] == message'],
    result_value=lambda it, cfr: _msg_obj(it, cfr.locs['message']),
    canaries=[('raise Notify(1, 3,', 'raise Notify(1, 0,')],
)
REG.mark_inline('bgp/message/message.py', 'Message.klass')


def _reader_result(it, cfr):
    """shape of Connection.reader_async()'s result at a call site"""
    ctx = it.ctx
    isnone = ctx.fresh('notify!none', z3.BoolSort())
    err = VObj(None, {'none!': isnone, 'bool!': z3.Not(isnone), 'code': ctx.fresh('notify.code'), 'subcode': ctx.fresh('notify.subcode')}, 'notify')
    return VTuple([ctx.fresh('r.length'), ctx.fresh('r.type'), ctx.fresh_bytes('r.header', 'memoryview'), ctx.fresh_bytes('r.body', 'memoryview'), err])


def _reader_effect(it, cfr, fr):
    # pos advanced by an amount fixed by the callee's ensures
    newpos = it.ctx.fresh('pos')
    _set_ghost(fr, 'pos', newpos)
    cfr.locs['pos'] = newpos


ra = REG.contracts[('reactor/network/connection.py', 'Connection.reader_async')]
ra.result_value = _reader_result
ra.effect = _reader_effect


def _cast(it, args, kwargs, fr, node):
    return args[1]


def _count_unpack(it, cfr, fr):
    _set_ghost(fr, 'unpacked', simp(fr.lookup('unpacked') + 1))


mu = REG.contracts[('bgp/message/message.py', 'Message.unpack')]
mu.effect = None

LETS = {
    'L': 'stream[pos + 16] * 256 + stream[pos + 17]',
    'T': 'stream[pos + 18]',
    'marker_ok': 'stream[pos:pos + 16] == Message.MARKER',
    'type_ok': '(29 <= L and L <= 4096 if T == 1 else L >= 23 if T == 2 else L >= 21 if T == 3 else L == 19 if T == 4 else L == 23 if T == 5 else L >= 19)',
    'header_ok': 'marker_ok and 19 <= L and L <= self.connection.msg_size and type_ok',
}

PROTO = dict(
    connection=obj('exabgp.reactor.network.connection:Connection', **CONN),
    _api=flags_obj('flags'),
    peer=obj(None, stats=flags_obj('counters'), neighbor=obj(None), reactor=obj(None, processes=obj(None))),
    neighbor=obj(None, adj_rib_in=bool_()),
    negotiated=obj(None),
    log_routes=bool_(),
)


def _unpack_in_read(it, args, kwargs, fr, node):
    """Message.unpack at its call site in read_message: the callee's contract, plus the ghost decode counter"""
    from pyvc.calls import apply_contract

    _set_ghost(fr, 'unpacked', simp(fr.lookup('unpacked') + 1))
    return apply_contract(it, mu, [REG.resolve_class('exabgp.bgp.message.message:Message')] + list(args), kwargs, fr, node)


contract(
    'reactor/protocol.py',
    'Protocol.read_message',
    props=('C06', 'C10', 'C03'),
    params={'self': obj('exabgp.reactor.protocol:Protocol', **PROTO)},
    ghost={'stream': custom(ghost_stream), 'pos': int_(0), 'unpacked': const(0)},
    callees={
        'self._api.get': returns_fresh('bool', label='api_flag'),
        'self.peer.stats.get': returns_fresh('int', lo=0, label='counter'),
        'self.peer.reactor.processes.notification': noop,
        'self.peer.reactor.processes.packets': noop,
        'self.peer.reactor.processes.message': noop,
        'Message.CODE.short': returns_fresh('str', label='short'),
        'Message.unpack': _unpack_in_read,
        'cast': _cast,
        'traceback.format_exc': returns_fresh('str', label='tb'),
        'self._session': returns_fresh('str', label='session'),
    },
    lets=LETS,
    raises=[
        {'exc': 'NotConnected', 'iff': 'not old(self.connection.io)'},
        {'exc': 'LostConnection'},
        {'exc': 'TooSlowError'},
        {'exc': 'NetworkError'},
        # Message Header Errors, one per fault (RFC 4271 6.1)
        {'exc': 'Notify', 'args': '(1, 1)', 'iff': 'old(self.connection.io) and not marker_ok', 'cover': False},
        {'exc': 'Notify', 'args': '(1, 2)', 'iff': 'old(self.connection.io) and marker_ok and not header_ok', 'cover': False},
        {'exc': 'Notify', 'args': '(1, 3)', 'iff': f'old(self.connection.io) and header_ok and T not in {REGISTERED}', 'cover': False},
        # decoder verdicts (their codes are the decoders' own contracts) and the catch-all
        {'exc': 'Notify', 'when': f'header_ok and T in {REGISTERED} and unpacked == 1', 'cover': False},
        {'exc': 'Notification', 'when': 'header_ok and T == 3 and unpacked == 1', 'cover': False},
    ],
    ensures=[
        f'header_ok and T in {REGISTERED}',
        'pos == old(pos) + L',
    ],
    final=[
        # nothing after a header fault is interpreted: the decoder is not entered
        'implies(not header_ok, unpacked == 0)',
        'unpacked <= 1',
    ],
    canaries=[
        ('raise notify_msg', 'pass'),
        ("raise Notify(1, 3, 'unknown message type", "raise Notify(1, 0, 'unknown message type"),
        ('Notify(notify.code, notify.subcode, str(notify))', 'Notify(notify.subcode, notify.code, str(notify))'),
    ],
)
