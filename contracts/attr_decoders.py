"""C02 / C08 / C15 — the fixed-shape path attribute decoders (from_packet): accepted iff the RFC length/value rule
holds, and the object keeps exactly the bytes it was given"""

from .common import *

A = 'bgp/message/update/attribute/'
TABLE = [
    # file, class, module path, accept condition over `data`, refusal exception, props, canary
    ('origin.py', 'Origin', 'len(data) == 1 and data[0] <= 2', 'ValueError', ('if data[0] > 2:', 'if data[0] > 3:')),
    ('med.py', 'MED', 'len(data) == 4', 'ValueError', ('if len(data) != 4:', 'if len(data) < 4:')),
    ('localpref.py', 'LocalPreference', 'len(data) == 4', 'ValueError', ('if len(data) != 4:', 'if len(data) > 4:')),
    ('nexthop.py', 'NextHop', 'len(data) == 4 or len(data) == 16', 'ValueError', ('(4, 16)', '(4, 16, 32)')),
    ('atomicaggregate.py', 'AtomicAggregate', 'len(data) == 0', 'ValueError', ('if data:', 'if not data:')),
    ('originatorid.py', 'OriginatorID', 'len(data) == 4', 'ValueError', ('if len(data) != 4:', 'if len(data) < 4:')),
    ('clusterlist.py', 'ClusterList', 'len(data) % 4 == 0', 'ValueError', ('% 4 != 0', '% 4 == 1')),
    ('community/initial/communities.py', 'Communities', 'len(data) % 4 == 0', 'Notify', ('% COMMUNITY_SIZE != 0', '% COMMUNITY_SIZE == 1')),
]
for file, cls_, accept, exc_, canary in TABLE:
    mod = 'exabgp.' + (A + file)[:-3].replace('/', '.')
    REG.mark_inline(A + file, f'{cls_}.__init__')
    klass = REG.resolve_class(f'{mod}:{cls_}')
    REG.record_classes.add(klass)
    contract(
        A + file,
        f'{cls_}.from_packet',
        props=('C02', 'C08', 'C15', 'C03'),
        params={'cls': const(klass), 'data': bytes_(0, 4096, 'memoryview')},
        raises=[{'exc': exc_, 'iff': f'not ({accept})'}],
        ensures=['result._packed == data'],
        canaries=[canary],
    )

REG.mark_inline(A + 'aggregator.py', 'Aggregator.__init__')
REG.record_classes.add(REG.resolve_class('exabgp.bgp.message.update.attribute.aggregator:Aggregator'))
contract(
    A + 'aggregator.py',
    'Aggregator.from_packet',
    props=('C02', 'C08', 'C15', 'C03', 'C19'),
    params={'cls': const(REG.resolve_class('exabgp.bgp.message.update.attribute.aggregator:Aggregator')), 'data': bytes_(0, 4096, 'memoryview'), 'asn4': bool_()},
    raises=[{'exc': 'ValueError', 'iff': 'len(data) != (8 if asn4 else 6)'}],
    ensures=['result._packed == data', 'result._asn4 == asn4'],
    canaries=[('expected_len = 8 if asn4 else 6', 'expected_len = 8 if asn4 else 8')],
)
