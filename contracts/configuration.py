"""C17 — configuration/configuration.py: a reload that does not succeed leaves the neighbors exactly as they were"""

import z3
from .common import *
from pyvc.interp import Raise

CF = 'configuration/configuration.py'
CONF = 'exabgp.configuration.configuration:Configuration'


def _ident_obj(label):
    """an opaque container whose IDENTITY is what matters (the neighbors dict): identity survives the old() snapshot"""

    def build(it, name):
        return VObj(None, {'id!': it.ctx.fresh(name + '!id'), 'bool!': it.ctx.fresh(name + '!nonempty', B)}, label)

    return custom(build)


def _may_fail(label, exc_ok=True):
    """a parser callee: returns True/False, or raises (anything can go wrong while reading / parsing a file)"""

    def h(it, args, kwargs, fr, node):
        ctx = it.ctx
        which = ctx.fresh(label + '!outcome')
        ctx.assume(z3.And(which >= 0, which <= 2))
        if exc_ok and ctx.branch(which == 2):
            ctx.inputs[label + ' raises'] = ('bool', z3.BoolVal(True))
            raise Raise(VExc(ValueError, (label + ' failed',)))
        ok = ctx.fresh(label + '!ok', B)
        ctx.inputs[label + ' returns'] = ('bool', ok)
        return ok

    return h


def _parse_section(it, args, kwargs, fr, node):
    ctx = it.ctx
    which = ctx.fresh('parse!outcome')
    ctx.assume(z3.And(which >= 0, which <= 2))
    if ctx.branch(which == 2):
        ctx.inputs['parse_section raises'] = ('bool', z3.BoolVal(True))
        raise Raise(VExc(ValueError, ('parser bug',)))
    if ctx.branch(which == 1):
        ctx.inputs['parse_section returns'] = ('bool', z3.BoolVal(True))
        return True
    ctx.inputs['parse_section returns'] = ('bool', z3.BoolVal(False))
    return False  # a clean syntax error


def _error_set(it, args, kwargs, fr, node):
    return False  # Error.set() records the message and returns False


def _commit(it, args, kwargs, fr, node):
    """_commit_reload(): the freshly parsed neighbors become current (its own behaviour is not the subject here)"""
    me = fr.lookup('self')
    me.fields['neighbors'] = VObj(None, {'id!': it.ctx.fresh('parsed_neighbors!id'), 'bool!': it.ctx.fresh('parsed!nonempty', B)}, 'parsed neighbors')
    me.fields['_previous_neighbors'] = VDict()
    _gset(fr, 'committed', True)
    return None


def _gset(fr, name, v):
    f = fr
    while f is not None:
        if name in f.locs:
            f.locs[name] = v
            return
        f = f.parent
    fr.locs[name] = v


def _validate_objects(it, args, kwargs, fr, node):
    """self.validate(...): True, or False with the ghost `objected` set (the file names an api process which is not
    defined, ...), or an exception like any parser code"""
    ctx = it.ctx
    which = ctx.fresh('validate!outcome')
    ctx.assume(z3.And(which >= 0, which <= 2))
    ctx.inputs['validate (0 fine, 1 objects, 2 raises)'] = ('int', which)
    if ctx.branch(which == 2):
        raise Raise(VExc(ValueError, ('validate failed',)))
    if ctx.branch(which == 1):
        _gset(fr, 'objected', True)
        return False
    return True


def _validate(it, args, kwargs, fr, node):
    v = it.ctx.fresh('validate!ok', B)
    it.ctx.inputs['validate returns'] = ('bool', v)
    return v


SELF = obj(
    CONF,
    neighbors=_ident_obj('neighbors'),
    _previous_neighbors=custom(lambda it, n: VDict()),
    _neighbors=custom(lambda it, n: VDict()),
    processes=_ident_obj('processes'),
    _previous_processes=_ident_obj('processes of an earlier reload'),
    _configurations=custom(lambda it, n: VList([VStr(it.ctx.fresh('fname'), 'fname')])),
    _text=bool_(),
    parser=obj(None, line=const(()), number=const(0)),
    process=obj(None, processes=_ident_obj('parsed processes')),
    neighbor=obj(None, neighbors=_ident_obj('parsed neighbors (not yet committed)')),
    error=obj(None),
    scope=obj(None),
)

contract(
    CF,
    'Configuration._reload',
    props=('C17',),
    params={'self': SELF},
    ghost={'committed': const(False), 'objected': const(False)},
    requires=['self.neighbors'],  # a configuration is loaded: there is something to lose
    callees={
        'self.parser.set_text': _may_fail('set_text'),
        'self.parser.set_file': _may_fail('set_file'),
        'os.path.realpath': returns_fresh('str', label='target'),
        'os.path.isfile': returns_fresh('bool', label='isfile'),
        'self.process.add_api': noop,
        'self.parse_section': _parse_section,
        'self.error.set': _error_set,
        'self.scope.location': returns_fresh('str', label='loc'),
        'self._commit_reload': _commit,
        'self._link': noop,
        # validate() looks at what is about to be committed: it answers True / False, or raises like any parser code
        'self.validate': _validate_objects,
        'self._cleanup': noop,  # clears the parser sections and the scope: nothing this contract speaks about
    },
    # whatever goes wrong inside is reported by reload(); here it may escape
    escapes=['ValueError'],
    ensures=[
        # a reload that does not succeed leaves the neighbors exactly as they were
        'implies(result is not True, self.neighbors is old(self.neighbors))',
        # ... and the API processes (the reactor stops every process missing from this table right after a reload)
        'implies(result is not True, self.processes is old(self.processes))',
        'implies(result is True, committed)',
        # a file validate() objects to is a failed reload: not committed, not answered True (its verdict was dropped)
        'implies(objected, result is not True and not committed)',
    ],
    final=[
        # ... and when an exception interrupts it before the commit, the neighbors are either back in place or
        # still parked in _previous_neighbors, where reload() finds them (its contract puts them back)
        'implies(not committed, self.neighbors is old(self.neighbors) or (exc is not None and self._previous_neighbors is old(self.neighbors)))',
    ],
    canaries=[
        ('            self._rollback_reload()\n            line_str', '            line_str'),
        ('processes) is not True:\n            self._rollback_reload()\n            return False', 'processes) is not True:\n            pass'),
        ('            if not os.path.isfile(target):\n                self._rollback_reload()', '            if not os.path.isfile(target):\n                pass'),
    ],
)
REG.mark_inline(CF, 'Configuration._clear', 'Configuration._rollback_reload')
# called from the inlined _rollback_reload: clears the parser sections and the scope, nothing these contracts speak about
REG.mark_native(CF, 'Configuration._cleanup', noop)


# ------------------------------------------------------------------------------------------------ reload(): every path


def _reload_callee(it, args, kwargs, fr, node):
    """self._reload() at its call site in reload(), by its contract: on a normal return that is not True the neighbors
    are unchanged; when an exception escapes before the commit they are unchanged or parked in _previous_neighbors"""
    ctx = it.ctx
    me = fr.lookup('self')
    old_n = me.fields['neighbors']
    which = ctx.fresh('_reload!outcome')
    ctx.assume(z3.And(which >= 0, which <= 3))
    ctx.inputs['_reload outcome (0 ok, 1 failed, 2 raises parked, 3 raises restored)'] = ('int', which)
    fresh_n = VObj(None, {'id!': ctx.fresh('parsed_neighbors!id'), 'bool!': ctx.fresh('parsed!nonempty', B)}, 'parsed neighbors')
    if ctx.branch(which == 0):
        me.fields['neighbors'] = fresh_n
        me.fields['_previous_neighbors'] = VDict()
        _gset(fr, 'committed', True)
        return True
    if ctx.branch(which == 1):
        me.fields['_previous_neighbors'] = VDict()
        return False
    if ctx.branch(which == 2):
        me.fields['_previous_neighbors'] = old_n
        me.fields['neighbors'] = VDict()
        raise Raise(VExc(ValueError, ('interrupted before commit',)))
    me.fields['_previous_neighbors'] = VDict()
    raise Raise(VExc(ValueError, ('interrupted, already rolled back',)))


contract(
    CF,
    'Configuration.reload',
    props=('C17',),
    params={'self': SELF},
    ghost={'committed': const(False)},
    requires=['self.neighbors'],
    callees={
        'self._reload': _reload_callee,
        'self.error.set': _error_set,
        'getenv': lambda it, a, k, fr, n: VObj(None, {'debug': VObj(None, {'configuration': it.ctx.fresh('debug.configuration', B)}, 'debug')}, 'env'),
    },
    escapes=['ValueError'],  # only re-raised in debug mode
    ensures=['implies(result is not True, self.neighbors is old(self.neighbors))'],
    final=[
        # whatever happens -- failure reported, or exception re-raised in debug mode -- a reload that did not commit
        # leaves the neighbors exactly as they were; and a committed one is never undone
        'implies(not committed, self.neighbors is old(self.neighbors))',
    ],
    notes=['assumed: _link() does not raise after _commit_reload(); validate() now runs BEFORE the commit (fix of its dropped verdict) and is modelled as answering True / False or raising'],
    canaries=[('        except Exception as exc:\n            self._abort_reload()', '        except Exception as exc:\n            pass')],
)
REG.mark_inline(CF, 'Configuration._abort_reload')


# ------------------------------------------------------------------------------------------------ C18: sections are closed
# The configuration grammar closes every section it opens.  Per function: dispatch() returns True only on a closing brace
# or at the end of the text; _enter() accepts a section only when dispatch() stopped on ITS closing brace; parse_section()
# accepts the text only when dispatch() stopped at the end of the text (no closing brace without an open section).

ENDS = [';', '{', '}', '', 'word']


def _parser_call(it, args, kwargs, fr, node):
    """self.parser(): the next statement is read; parser.end is its last token -- one of ; { } or nothing (text finished)
    or any other word (a statement without terminator at the end of the text)"""
    ctx = it.ctx
    me = fr.lookup('self')
    k = ctx.fresh('parser!end')
    ctx.assume(z3.And(k >= 0, k < len(ENDS)))
    ctx.inputs['parser.end (0 ";", 1 "{", 2 "}", 3 finished, 4 other word)'] = ('int', k)
    for i, e in enumerate(ENDS[:-1]):
        if ctx.branch(k == i):
            me.fields['parser'].fields['end'] = e
            return None
    me.fields['parser'].fields['end'] = ENDS[-1]
    return None


def _fresh_bool(label):
    def h(it, args, kwargs, fr, node):
        v = it.ctx.fresh(label, B)
        it.ctx.inputs[label] = ('bool', v)
        return v

    return h


def _nested(it, name):
    """self._structure[...][...][...]: the table of sections; what it holds is not what these contracts speak about"""
    me = VObj(None, {}, '_structure')
    me.fields['getitem!'] = lambda it2, o, k: me
    me.fields['bool!'] = it.ctx.fresh('structure!some', B)
    return me


PSELF = obj(CONF, parser=obj(None, end=const(';'), index_line=const(0)), error=obj(None), scope=obj(None), _structure=custom(_nested))

contract(
    CF,
    'Configuration.dispatch',
    props=('C18',),
    params={'self': PSELF, 'name': str_()},
    callees={'self.parser': _parser_call, 'self._run': _fresh_bool('_run'), 'self._enter': _fresh_bool('_enter'), 'self.error.set': _error_set},
    loops={0: {'inv': ['True'], 'modifies': ['self.parser.end']}},
    ensures=["implies(result is True, self.parser.end == '}' or self.parser.end == '')"],
    canaries=[('            if not self.parser.end:  # finished\n', '            if True:\n')],
    notes=['partial correctness: the loop of dispatch() ends when the parser runs out of text, which is not under contract'],
)


def _dispatch_callee(it, args, kwargs, fr, node):
    """self.dispatch(...) by its contract above: True only with parser.end '}' or '' """
    ctx = it.ctx
    me = fr.lookup('self')
    k = ctx.fresh('dispatch!outcome')
    ctx.assume(z3.And(k >= 0, k <= 2))
    ctx.inputs['dispatch (0 stopped on "}", 1 stopped at the end of the text, 2 failed)'] = ('int', k)
    if ctx.branch(k == 0):
        me.fields['parser'].fields['end'] = '}'
        return True
    if ctx.branch(k == 1):
        me.fields['parser'].fields['end'] = ''
        return True
    return False


def _structure_get(it, args, kwargs, fr, node):
    return VObj(None, {'bool!': it.ctx.fresh('instance!some', B)}, 'section instance')


contract(
    CF,
    'Configuration.parse_section',
    props=('C18',),
    params={'self': PSELF, 'name': str_()},
    segment={'from': 'if not self.dispatch(name):', 'to': "instance = self._structure[name].get('class', None)"},
    ghost={'refused': const(False)},
    callees={'self.dispatch': _dispatch_callee, 'self.error.set': lambda it, a, k, fr, n: (_gset(fr, 'refused', True), False)[1]},
    ensures=["implies(not refused and result is None, self.parser.end == '')"],
    canaries=[("        if self.parser.end == '}':\n            # a closing brace with no section open", "        if False:\n            # a closing brace with no section open")],
    notes=['segment: from the dispatch of the top-level section to the post-processing; a path which leaves the segment by return has refused the text'],
)


contract(
    CF,
    'Configuration._enter',
    props=('C18',),
    params={'self': PSELF, 'name': str_(), 'location': str_(), 'instance': obj(None)},
    segment={'from': "if not self.dispatch(self._structure[name]['sections'][location]):", 'to': 'if not instance.post():'},
    ghost={'refused': const(False)},
    callees={'self.dispatch': _dispatch_callee, 'self.error.set': lambda it, a, k, fr, n: (_gset(fr, 'refused', True), False)[1], 'self.scope.location': returns_fresh('str', label='loc')},
    ensures=["implies(not refused and result is None, self.parser.end == '}')"],
    canaries=[("        if self.parser.end != '}':\n            # dispatch also returns when the text ends", "        if False:\n            # dispatch also returns when the text ends")],
    notes=['segment: the dispatch of the section body and the test which follows it; pre() / post() of the section class and the scope bookkeeping around it are not under contract'],
)
