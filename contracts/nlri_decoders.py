"""C02 / C03 / C15 — bgp/message/update/nlri/inet.py INETBase.unpack_nlri, the decoder of every prefix-like NLRI (unicast,
multicast, labelled, VPN): one instance of the contract per registered (afi, safi), each on the whole function.

  * only Notify comes out, for ANY bytes, with or without ADD-PATH;
  * the label walk terminates (variant: the mask);
  * FRAMING: what is handed back is the suffix of the input which starts right after this NLRI, and this NLRI is
    [4 octets of path identifier +] 1 octet of length + ceil(length / 8) octets (RFC 4271 4.3, RFC 8277 2, RFC 4364
    4.3.4, RFC 7911 3) -- whatever the labels and the route distinguisher inside it say.  This is what makes the
    NEXT NLRI of the same UPDATE start at the right octet.
"""

import z3
from .common import *
from .encoders import _size

INET = 'bgp/message/update/nlri/inet.py'
IPVPN = 'bgp/message/update/nlri/ipvpn.py'

from exabgp.protocol.family import AFI, SAFI, Family  # noqa: E402
from exabgp.protocol.ip import IP  # noqa: E402

REG.allow_native(SAFI.has_label, IP.length)

FAMILIES = [
    # tag, afi, safi, class the dispatcher calls, file, function, name of the buffer parameter
    ('ipv4-unicast', AFI.ipv4, SAFI.unicast, 'exabgp.bgp.message.update.nlri.inet:INET', INET, 'INETBase.unpack_nlri', 'bgp'),
    ('ipv6-unicast', AFI.ipv6, SAFI.unicast, 'exabgp.bgp.message.update.nlri.inet:INET', INET, 'INETBase.unpack_nlri', 'bgp'),
    ('ipv4-multicast', AFI.ipv4, SAFI.multicast, 'exabgp.bgp.message.update.nlri.inet:INET', INET, 'INETBase.unpack_nlri', 'bgp'),
    ('ipv6-multicast', AFI.ipv6, SAFI.multicast, 'exabgp.bgp.message.update.nlri.inet:INET', INET, 'INETBase.unpack_nlri', 'bgp'),
    # Label inherits the decoder of INETBase
    ('ipv4-nlri-mpls', AFI.ipv4, SAFI.nlri_mpls, 'exabgp.bgp.message.update.nlri.label:Label', INET, 'INETBase.unpack_nlri', 'bgp'),
    ('ipv6-nlri-mpls', AFI.ipv6, SAFI.nlri_mpls, 'exabgp.bgp.message.update.nlri.label:Label', INET, 'INETBase.unpack_nlri', 'bgp'),
    # IPVPN has its own copy of the walk
    ('ipv4-mpls-vpn', AFI.ipv4, SAFI.mpls_vpn, 'exabgp.bgp.message.update.nlri.ipvpn:IPVPN', IPVPN, 'IPVPNBase.unpack_nlri', 'data'),
    ('ipv6-mpls-vpn', AFI.ipv6, SAFI.mpls_vpn, 'exabgp.bgp.message.update.nlri.ipvpn:IPVPN', IPVPN, 'IPVPNBase.unpack_nlri', 'data'),
]

def _from_cidr_bytes(it, args, kwargs, fr, node):
    """CIDR.from_ipv4 / from_ipv6(<length octet> + <prefix octets>) at its call site in the decoders: RFC 4271 4.3 --
    "the value of trailing bits is irrelevant": the prefix handed on has them CLEARED, so that two spellings of one prefix
    are one route (one index, one RIB entry)"""
    import z3

    arg = args[-1]
    if isinstance(arg, VBytes):
        n = to_z3(arg.length())
        m = to_z3(arg.at(0))
        last = to_z3(arg.at(simp(n - 1)))
        r = m % 8
        # one obligation per residue of the length: with the shift amount fixed the mask is a constant for the solver
        for k in range(1, 8):
            it.ctx.oblige(f'prefix:trailing-bits-cleared:{k}', 'post', z3.Implies(z3.And(r == k, n > 1), last % (1 << (8 - k)) == 0), f'length % 8 == {k}: the {8 - k} bits of the last prefix octet beyond the prefix length are zero in what is stored (RFC 4271 4.3)')
    return VObj(None, {'opaque!': True, 'bool!': True}, 'cidr')


for tag, afi, safi, klass, file_, fn, buf in FAMILIES:
    rd = Family.size.get((afi, safi), (0, 0))[1]
    lets = {'P': '(4 if addpath else 0)', 'M': f'{buf}[P]', 'buf0': buf}
    cut = 'network, data = data[:size], data[size:]'
    canaries = [(cut, 'network, data = data[:size], data[size + 1 :]')]
    if safi.has_label():
        canaries.insert(0, ('mask -= LABEL_SIZE_BITS', 'mask -= LABEL_SIZE_BITS - 8'))
    contract(
        file_,
        f'{fn}#{tag}',
        props=('C02', 'C03', 'C15'),
        params={
            'cls': const(REG.resolve_class(klass)),
            'afi': const(afi),
            'safi': const(safi),
            buf: bytes_(0, 4096, 'memoryview'),
            'action': custom(lambda it, n: VObj(None, {'opaque!': True, 'bool!': True}, n)),
            'addpath': bool_(),
            'negotiated': obj(None),
        },
        lets=lets,
        callees={'CIDR.size': _size, 'CIDR.from_ipv4': _from_cidr_bytes, 'CIDR.from_ipv6': _from_cidr_bytes},
        opaque_calls=True,
        loops={
            0: {
                'subviews': {'data': 'buf0'},
                'inv': [
                    '0 <= mask and mask <= 255',
                    # what was taken so far: the path identifier, the length octet and whole labels; the mask went down with it
                    '(M - mask) % 8 == 0',
                    'voff(data) == voff(buf0) + P + 1 + (M - mask) // 8',
                    'voff(data) + len(data) == voff(buf0) + len(buf0)',
                    'len(buf0) > P',
                ],
                'decreases': 'mask',
            }
        },
        raises=[{'exc': 'Notify', 'cover': False}],
        ensures=[
            # the rest starts right after <path id> <length> <ceil(length/8) octets>
            'subview(result[1], buf0)',
            'voff(result[1]) == voff(buf0) + P + 1 + (M + 7) // 8',
            'voff(result[1]) + len(result[1]) == voff(buf0) + len(buf0)',
        ]
        # the mpls-vpn decoder stores the octets itself (no CIDR constructor to put the obligation on): RFC 4271 4.3, the bits
        # of the last prefix octet beyond the prefix length are zero in what is stored
        + ([f'implies(mask % 8 == {k} and size > 0, network[size - 1] % {1 << (8 - k)} == 0)' for k in range(1, 8)] if fn.startswith('IPVPNBase') else []),
        canaries=canaries,
        notes=[f'instance for {tag} (route distinguisher of {rd} octets); PathInfo / RouteDistinguisher / CIDR / Labels constructors, cls.from_cidr and object.__new__ are callees without contract: results unconstrained'],
    )
