"""C16 — bgp/message/update/nlri/flow.py"""

import z3
from .common import *

FL = 'bgp/message/update/nlri/flow.py'
FLOW = 'exabgp.bgp.message.update.nlri.flow:Flow'

# RFC 8955 4.1: "If the NLRI length is smaller than 240 (0xf0) octets, the length field can be encoded as a single
# octet. Otherwise, it is encoded as an extended-length 2-octet value in which the most significant nibble of the
# first octet is all ones." -> maximum 0x0FFF = 4095.
contract(
    FL,
    'Flow._encode_length',
    props=('C16', 'C15', 'C18'),
    params={'self': obj(FLOW), 'components': bytes_(0, None)},
    lets={'n': 'len(components)'},
    raises=[{'exc': 'Notify', 'args': '(3, 0)', 'iff': 'n > 4095'}],
    ensures=[
        'implies(n < 240, len(result) == n + 1 and result[0] == n and result[1:] == components)',
        'implies(240 <= n, len(result) == n + 2 and result[0] == 0xF0 + n // 256 and result[1] == n % 256 and result[2:] == components)',
    ],
    canaries=[
        ('if lc < FLOW_LENGTH_COMPACT_MAX:', 'if lc <= FLOW_LENGTH_COMPACT_MAX:'),
        ('lc | (FLOW_LENGTH_EXTENDED_VALUE << 8)', 'lc | (FLOW_LENGTH_EXTENDED_VALUE << 7)'),
        ('if lc <= FLOW_LENGTH_EXTENDED_MAX:', 'if lc < FLOW_LENGTH_EXTENDED_MAX:'),
    ],
)

HDR = '(1 if data[0] < 0xF0 else 2)'
LEN = '(data[0] if data[0] < 0xF0 else (data[0] - 0xF0) * 256 + data[1])'
contract(
    FL,
    'Flow.unpack_nlri',
    props=('C16', 'C03', 'C15'),
    segment={'from': 'if len(data) < 1:', 'to': 'nlri = cls(packed, afi, safi)'},
    params={'cls': const(None), 'afi': int_(1, 2), 'safi': int_(133, 134), 'data': bytes_(0, 65535, 'memoryview'), 'packed': const(b''), 'over': const(b'')},
    setup=lambda it, fr: fr.locs.__setitem__('data0', fr.locs['data']),
    raises=[
        {'exc': 'Notify', 'args': '(3, 10)', 'iff': f'len(data0) < 1 or (data0[0] >= 0xF0 and len(data0) < 2) or len(data0) < {HDR.replace("data", "data0")} + {LEN.replace("data", "data0")}'},
    ],
    ensures=[
        # RFC 8955 4.1 length: one byte below 240, else 0xFnnn
        f'packed == data0[{HDR.replace("data", "data0")}:{HDR.replace("data", "data0")} + {LEN.replace("data", "data0")}]',
        f'over == data0[{HDR.replace("data", "data0")} + {LEN.replace("data", "data0")}:]',
        f'len(packed) == {LEN.replace("data", "data0")}',
    ],
    notes=['segment contract: the length-prefix decode of Flow.unpack_nlri (up to the construction of the Flow object); rule validation follows in _parse_rules'],
    canaries=[
        ('<< FLOW_LENGTH_EXTENDED_SHIFT', '<< 16'),
        ('if length > len(data):', 'if length > len(data) + 1:'),
        ('length & FLOW_LENGTH_LOWER_MASK', 'length & FLOW_LENGTH_EXTENDED_MASK'),
    ],
)

# ------------------------------------------------------------------------------------------------ operator byte
contract(FL, 'CommonOperator.eol', props=('C16',), params={'data': int_(0, 255)}, result=int_(), ensures=['result == (data // 128) * 128', '(result != 0) == (data >= 128)'], canaries=[('CommonOperator.EOL', 'CommonOperator.AND')])
contract(FL, 'CommonOperator.operator', props=('C16',), params={'data': int_(0, 255)}, result=int_(), ensures=['result == data - (data // 128) * 128 - ((data // 16) % 4) * 16', '0 <= result and result <= 0x4F'], canaries=[('CommonOperator.OPERATOR', 'CommonOperator.LEN')])
contract(
    FL,
    'CommonOperator.length',
    props=('C16',),
    params={'data': int_(0, 255)},
    result=int_(),
    lets={'lb': '(data // 16) % 4'},
    ensures=['result == (1 if lb == 0 else 2 if lb == 1 else 4 if lb == 2 else 8)'],
    canaries=[('>> 4', '>> 5')],
)
contract(FL, '_len_to_bit', props=('C16',), params={'value': int_(1, 8)}, requires=['value == 1 or value == 2 or value == 4 or value == 8'], result=int_(), ensures=['result == (0 if value == 1 else 0x10 if value == 2 else 0x20 if value == 4 else 0x30)'], canaries=[('<< 4', '<< 3')])
contract(FL, '_bit_to_len', props=('C16',), params={'value': int_(0, 255)}, result=int_(), lets={'lb': '(value // 16) % 4'}, ensures=['result == (1 if lb == 0 else 2 if lb == 1 else 4 if lb == 2 else 8)'], canaries=[('>> 4', '>> 3')])

# ------------------------------------------------------------------------------------------------ value encoders: shortest allowed width
for cls_, hi, widths in (('IOperationByte', 255, '1'), ('IOperationByteShort', 65535, '(1 if value < 256 else 2)'), ('IOperationByteShortLong', 0xFFFFFFFF, '(1 if value < 256 else 2 if value < 65536 else 4)')):
    contract(
        FL,
        f'{cls_}.encode',
        props=('C16', 'C18'),
        params={'self': obj(f'exabgp.bgp.message.update.nlri.flow:{cls_}'), 'value': int_()},
        # the text parser must establish this range (C18): outside it bytes()/pack() raise
        requires=[f'0 <= value and value <= {hi}'],
        result_value=lambda it, cfr: VTuple([it.ctx.fresh('enc.width'), it.ctx.fresh_bytes('enc.value')]),
        ensures=[
            f'result[0] == {widths}',
            'len(result[1]) == result[0]',
            # big-endian value
            'implies(result[0] == 1, result[1][0] == value)',
            'implies(result[0] == 2, result[1][0] * 256 + result[1][1] == value)',
            'implies(result[0] == 4, ((result[1][0] * 256 + result[1][1]) * 256 + result[1][2]) * 256 + result[1][3] == value)',
        ],
        canaries=[('return 1, bytes([value])', 'return 2, bytes([value])')] if cls_ == 'IOperationByte' else [('if value < (1 << 8):', 'if value <= (1 << 8):')],
    )

for tag, cls_, hi in (('byte', 'IOperationByte', 255), ('short', 'IOperationByteShort', 65535), ('long', 'IOperationByteShortLong', 0xFFFFFFFF)):
    contract(
        FL,
        f'IOperation.pack#{tag}',
        props=('C16',),
        params={'self': obj(f'exabgp.bgp.message.update.nlri.flow:{cls_}', operations=int_(0, 255), value=int_(0, hi), first=const(None))},
        # the parser and _pack_from_rules only ever put EOL / AND / comparison bits here: the two length bits are clear
        requires=['(self.operations // 16) % 4 == 0'],
        lets={'v': 'self.value', 'w': '(1 if self.value < 256 else 2 if self.value < 65536 else 4)'},
        ensures=[
            'len(result) == 1 + w',
            # operator byte: EOL, AND and comparison bits as given, length bits = log2(width)
            'result[0] == self.operations + (0 if w == 1 else 0x10 if w == 2 else 0x20)',
            'implies(w == 1, result[1] == v)',
            'implies(w == 2, result[1] * 256 + result[2] == v)',
            'implies(w == 4, ((result[1] * 256 + result[2]) * 256 + result[3]) * 256 + result[4] == v)',
        ],
        canaries=[('op = self.operations | _len_to_bit(length)', 'op = self.operations')] if tag != 'byte' else [('return bytes([op]) + value', 'return bytes([op])')],
    )
REG.mark_inline(FL, '_len_to_bit')


def replay_flow_length(reg, c, model, clause):
    """differential replay of the length-prefix decode on the real Flow.unpack_nlri against the RFC 8955 4.1 reading"""
    from exabgp.bgp.message.update.nlri.flow import Flow
    from exabgp.bgp.message.update.nlri.nlri import NLRI
    from exabgp.bgp.message.action import Action
    from exabgp.protocol.family import AFI, SAFI
    from spec.flow import flow_split

    raw = bytes.fromhex(model['data']['hex'])
    raw = raw + bytes(max(0, model['data']['len'] - len(raw)))
    out = {'function': f'{c.file}:{c.qualname}', 'clause': clause, 'model': model, 'confirmed': False, 'input': {'data_hex': raw.hex()[:400], 'len': len(raw)}}
    exp = flow_split(raw)
    try:
        nlri, over = Flow.unpack_nlri(AFI.ipv4, SAFI.flow_ip, raw, Action.ANNOUNCE, None, None)
        obs = ('ok', None if nlri is NLRI.INVALID else bytes(nlri._packed), bytes(over))
    except Exception as e:  # noqa
        obs = ('raise', f'{type(e).__name__}{getattr(e, "code", "")}/{getattr(e, "subcode", "")}: {e}'[:160], None)
    out['expected'] = 'refused (3/10)' if exp is None else {'payload_len': len(exp[0]), 'leftover_len': len(exp[1])}
    out['observed'] = {'kind': obs[0], 'payload_len': (len(obs[1]) if isinstance(obs[1], bytes) else obs[1]), 'leftover_len': (len(obs[2]) if obs[2] is not None else None)}
    if exp is None:
        bad = obs[0] != 'raise'
    else:
        # the rule content may still be refused by _parse_rules (INVALID): what must agree is the framing
        bad = obs[0] == 'raise' or obs[2] != exp[1] or (obs[1] is not None and obs[1] != exp[0])
    out['confirmed'] = bool(bad)
    return out


REG.contracts[(FL, 'Flow.unpack_nlri')].replay = replay_flow_length
