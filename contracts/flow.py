"""C16 — bgp/message/update/nlri/flow.py"""

import z3
from .common import *

FL = 'bgp/message/update/nlri/flow.py'
FLOW = 'exabgp.bgp.message.update.nlri.flow:Flow'

# RFC 8955 4.1: "If the NLRI length is smaller than 240 (0xf0) octets, the length field can be encoded as a single
# octet. Otherwise, it is encoded as an extended-length 2-octet value in which the most significant nibble of the
# first octet is all ones." -> maximum 0x0FFF = 4095.
contract(
    FL,
    'Flow._encode_length',
    props=('C16', 'C15', 'C18'),
    params={'self': obj(FLOW), 'components': bytes_(0, None)},
    lets={'n': 'len(components)'},
    raises=[{'exc': 'Notify', 'args': '(3, 0)', 'iff': 'n > 4095'}],
    ensures=[
        'implies(n < 240, len(result) == n + 1 and result[0] == n and result[1:] == components)',
        'implies(240 <= n, len(result) == n + 2 and result[0] == 0xF0 + n // 256 and result[1] == n % 256 and result[2:] == components)',
    ],
    canaries=[
        ('if lc < FLOW_LENGTH_COMPACT_MAX:', 'if lc <= FLOW_LENGTH_COMPACT_MAX:'),
        ('lc | (FLOW_LENGTH_EXTENDED_VALUE << 8)', 'lc | (FLOW_LENGTH_EXTENDED_VALUE << 7)'),
        ('if lc <= FLOW_LENGTH_EXTENDED_MAX:', 'if lc < FLOW_LENGTH_EXTENDED_MAX:'),
    ],
)

HDR = '(1 if data[0] < 0xF0 else 2)'
LEN = '(data[0] if data[0] < 0xF0 else (data[0] - 0xF0) * 256 + data[1])'
contract(
    FL,
    'Flow.unpack_nlri',
    props=('C16', 'C03', 'C15'),
    segment={'from': 'if len(data) < 1:', 'to': 'nlri = cls(packed, afi, safi)'},
    params={'cls': const(None), 'afi': int_(1, 2), 'safi': int_(133, 134), 'data': bytes_(0, 65535, 'memoryview'), 'packed': const(b''), 'over': const(b'')},
    setup=lambda it, fr: fr.locs.__setitem__('data0', fr.locs['data']),
    raises=[
        {'exc': 'Notify', 'args': '(3, 10)', 'iff': f'len(data0) < 1 or (data0[0] >= 0xF0 and len(data0) < 2) or len(data0) < {HDR.replace("data", "data0")} + {LEN.replace("data", "data0")}'},
    ],
    ensures=[
        # RFC 8955 4.1 length: one byte below 240, else 0xFnnn
        f'packed == data0[{HDR.replace("data", "data0")}:{HDR.replace("data", "data0")} + {LEN.replace("data", "data0")}]',
        f'over == data0[{HDR.replace("data", "data0")} + {LEN.replace("data", "data0")}:]',
        f'len(packed) == {LEN.replace("data", "data0")}',
    ],
    notes=['segment contract: the length-prefix decode of Flow.unpack_nlri (up to the construction of the Flow object); rule validation follows in _parse_rules'],
    canaries=[
        ('<< FLOW_LENGTH_EXTENDED_SHIFT', '<< 16'),
        ('if length > len(data):', 'if length > len(data) + 1:'),
        ('length & FLOW_LENGTH_LOWER_MASK', 'length & FLOW_LENGTH_EXTENDED_MASK'),
    ],
)

# ------------------------------------------------------------------------------------------------ operator byte
contract(FL, 'CommonOperator.eol', props=('C16',), params={'data': int_(0, 255)}, result=int_(), ensures=['result == (data // 128) * 128', '(result != 0) == (data >= 128)'], canaries=[('CommonOperator.EOL', 'CommonOperator.AND')])
contract(FL, 'CommonOperator.operator', props=('C16',), params={'data': int_(0, 255)}, result=int_(), ensures=['result == data - (data // 128) * 128 - ((data // 16) % 4) * 16', '0 <= result and result <= 0x4F'], canaries=[('CommonOperator.OPERATOR', 'CommonOperator.LEN')])
contract(
    FL,
    'CommonOperator.length',
    props=('C16',),
    params={'data': int_(0, 255)},
    result=int_(),
    lets={'lb': '(data // 16) % 4'},
    ensures=['result == (1 if lb == 0 else 2 if lb == 1 else 4 if lb == 2 else 8)'],
    canaries=[('>> 4', '>> 5')],
)
contract(FL, '_len_to_bit', props=('C16',), params={'value': int_(1, 8)}, requires=['value == 1 or value == 2 or value == 4 or value == 8'], result=int_(), ensures=['result == (0 if value == 1 else 0x10 if value == 2 else 0x20 if value == 4 else 0x30)'], canaries=[('<< 4', '<< 3')])
contract(FL, '_bit_to_len', props=('C16',), params={'value': int_(0, 255)}, result=int_(), lets={'lb': '(value // 16) % 4'}, ensures=['result == (1 if lb == 0 else 2 if lb == 1 else 4 if lb == 2 else 8)'], canaries=[('>> 4', '>> 3')])

# ------------------------------------------------------------------------------------------------ value encoders: shortest allowed width
for cls_, hi, widths in (('IOperationByte', 255, '1'), ('IOperationByteShort', 65535, '(1 if value < 256 else 2)'), ('IOperationByteShortLong', 0xFFFFFFFF, '(1 if value < 256 else 2 if value < 65536 else 4)')):
    contract(
        FL,
        f'{cls_}.encode',
        props=('C16', 'C18'),
        params={'self': obj(f'exabgp.bgp.message.update.nlri.flow:{cls_}'), 'value': int_()},
        # the text parser must establish this range (C18): outside it bytes()/pack() raise
        requires=[f'0 <= value and value <= {hi}'],
        result_value=lambda it, cfr: VTuple([it.ctx.fresh('enc.width'), it.ctx.fresh_bytes('enc.value')]),
        ensures=[
            f'result[0] == {widths}',
            'len(result[1]) == result[0]',
            # big-endian value
            'implies(result[0] == 1, result[1][0] == value)',
            'implies(result[0] == 2, result[1][0] * 256 + result[1][1] == value)',
            'implies(result[0] == 4, ((result[1][0] * 256 + result[1][1]) * 256 + result[1][2]) * 256 + result[1][3] == value)',
        ],
        canaries=[('return 1, bytes([value])', 'return 2, bytes([value])')] if cls_ == 'IOperationByte' else [('if value < (1 << 8):', 'if value <= (1 << 8):')],
    )

for tag, cls_, hi in (('byte', 'IOperationByte', 255), ('short', 'IOperationByteShort', 65535), ('long', 'IOperationByteShortLong', 0xFFFFFFFF)):
    contract(
        FL,
        f'IOperation.pack#{tag}',
        props=('C16',),
        params={'self': obj(f'exabgp.bgp.message.update.nlri.flow:{cls_}', operations=int_(0, 255), value=int_(0, hi), first=const(None))},
        # the parser and _pack_from_rules only ever put EOL / AND / comparison bits here: the two length bits are clear
        requires=['(self.operations // 16) % 4 == 0'],
        lets={'v': 'self.value', 'w': '(1 if self.value < 256 else 2 if self.value < 65536 else 4)'},
        ensures=[
            'len(result) == 1 + w',
            # operator byte: EOL, AND and comparison bits as given, length bits = log2(width)
            'result[0] == self.operations + (0 if w == 1 else 0x10 if w == 2 else 0x20)',
            'implies(w == 1, result[1] == v)',
            'implies(w == 2, result[1] * 256 + result[2] == v)',
            'implies(w == 4, ((result[1] * 256 + result[2]) * 256 + result[3]) * 256 + result[4] == v)',
        ],
        canaries=[('op = self.operations | _len_to_bit(length)', 'op = self.operations')] if tag != 'byte' else [('return bytes([op]) + value', 'return bytes([op])')],
    )
REG.mark_inline(FL, '_len_to_bit')


def replay_flow_length(reg, c, model, clause):
    """differential replay of the length-prefix decode on the real Flow.unpack_nlri against the RFC 8955 4.1 reading"""
    from exabgp.bgp.message.update.nlri.flow import Flow
    from exabgp.bgp.message.update.nlri.nlri import NLRI
    from exabgp.bgp.message.action import Action
    from exabgp.protocol.family import AFI, SAFI
    from spec.flow import flow_split

    raw = bytes.fromhex(model['data']['hex'])
    raw = raw + bytes(max(0, model['data']['len'] - len(raw)))
    out = {'function': f'{c.file}:{c.qualname}', 'clause': clause, 'model': model, 'confirmed': False, 'input': {'data_hex': raw.hex()[:400], 'len': len(raw)}}
    exp = flow_split(raw)
    try:
        nlri, over = Flow.unpack_nlri(AFI.ipv4, SAFI.flow_ip, raw, Action.ANNOUNCE, None, None)
        obs = ('ok', None if nlri is NLRI.INVALID else bytes(nlri._packed), bytes(over))
    except Exception as e:  # noqa
        obs = ('raise', f'{type(e).__name__}{getattr(e, "code", "")}/{getattr(e, "subcode", "")}: {e}'[:160], None)
    out['expected'] = 'refused (3/10)' if exp is None else {'payload_len': len(exp[0]), 'leftover_len': len(exp[1])}
    out['observed'] = {'kind': obs[0], 'payload_len': (len(obs[1]) if isinstance(obs[1], bytes) else obs[1]), 'leftover_len': (len(obs[2]) if obs[2] is not None else None)}
    if exp is None:
        bad = obs[0] != 'raise'
    else:
        # the rule content may still be refused by _parse_rules (INVALID): what must agree is the framing
        bad = obs[0] == 'raise' or obs[2] != exp[1] or (obs[1] is not None and obs[1] != exp[0])
    out['confirmed'] = bool(bad)
    return out


REG.contracts[(FL, 'Flow.unpack_nlri')].replay = replay_flow_length


# ------------------------------------------------------------------------------------------------ decoding walk


def _decoder(it, args, kwargs, fr, node):
    vb = args[0]
    o = VObj(None, {'isinstance!': lambda c: True, 'bytes!': vb}, 'value')
    return o


def _append_op(it, args, kwargs, fr, node):
    """rules.setdefault(what, []).append(klass(operator, value)): one operator/value pair is delivered; the obligations
    here are the RFC 8955 4.2.1.1 bit layout of what the loop body just read"""
    ctx = it.ctx
    L = fr.locs
    byte, length, vb = L['byte'], L['length'], L['value_bytes']
    lb = simp((to_z3(byte) / 16) % 4)
    ctx.oblige('op:width', 'post', to_z3(length) == z3.If(lb == 0, 1, z3.If(lb == 1, 2, z3.If(lb == 2, 4, 8))), 'value width = 1 << length bits of the operator byte')
    ctx.oblige('op:value-bytes', 'post', to_z3(vb.length()) == to_z3(length), 'the value is exactly `width` bytes')
    ctx.oblige('op:eol', 'post', (to_z3(L['end']) != 0) == (to_z3(byte) >= 128), 'end-of-list = bit 7 of the operator byte')
    ctx.oblige('op:operator', 'post', to_z3(L['operator']) == to_z3(byte) - (to_z3(byte) / 128) * 128 - lb * 16, 'AND and comparison bits delivered as sent')
    # framing: the operator byte sits where the previous pair ended, its value bytes directly follow it in the SAME
    # buffer, and what is left starts right after them
    if vb.pieces and len(vb.pieces) == 1 and vb.pieces[0].kind == 'view':
        p = vb.pieces[0]
        ctx.oblige('op:position', 'post', to_z3(p.off) - 1 == to_z3(L['next_pos']), 'the operator byte is read where the previous pair ended')
        ctx.oblige('op:byte', 'post', to_z3(byte) == z3.Select(p.arr(), to_z3(p.off) - 1), 'the operator byte is the byte before its value')
        L['next_pos'] = simp(p.off + length)
    else:
        ctx.oblige('op:position', 'post', False, 'value bytes are not a window of the payload')
    L['nops'] = simp(L['nops'] + 1)
    return None


def _klass_new(it, args, kwargs, fr, node):
    return VObj(None, {'operations': args[0], 'value': args[1]}, 'op')


def _po_result(it, cfr):
    b = cfr.locs['bgp'].pieces[0]
    k = it.ctx.fresh('consumed')
    it.ctx.assume(z3.And(k >= 2, k <= to_z3(b.len)))
    return VBytes([Piece('view', b.a, simp(b.off + k), simp(b.len - k))], cfr.locs['bgp'].kind)


contract(
    FL,
    'Flow._parse_operations',
    props=('C16', 'C03'),
    params={'what': int_(3, 13), 'klass': obj(None), 'bgp': bytes_(1, 4095, 'memoryview'), 'rules': obj(None)},
    ghost={'nops': const(0), 'next_pos': const(0)},
    # the operator list handed over starts right after the component type byte it belongs to
    requires=['len(bgp) == 0 or vbefore(bgp) == what'],
    callees={
        'klass.decoder': _decoder,
        'issubclass': lambda it, a, k, fr, n: True,
        'klass': _klass_new,
        'rules.setdefault(what, []).append': _append_op,
    },
    lets={'bgp0': 'bgp'},
    setup=lambda it, fr: fr.locs.__setitem__('next_pos', fr.locs['bgp'].pieces[0].off if fr.locs['bgp'].pieces else 0),
    loops={
        0: {
            'subviews': {'bgp': 'bgp0'},
            'inv': ['voff(bgp) + len(bgp) == voff(bgp0) + len(bgp0)', 'nops >= 0', 'next_pos == voff(bgp)', 'implies(not end, nops * 2 <= voff(bgp) - voff(bgp0))', 'implies(end, voff(bgp) - voff(bgp0) >= 2 and nops >= 1)'],
            'decreases': 'len(bgp) + (0 if end else 1)',
            'modifies': ['nops', 'next_pos'],
        }
    },
    # truncated value / missing end-of-list / undefined width: refused, never a shorter list
    raises=[{'exc': 'Notify', 'args': '(3, 10)'}],
    ensures=[
        # what is left is the suffix of the same payload after at least one complete (operator, value) pair
        'subview(result, bgp0) and voff(result) + len(result) == voff(bgp0) + len(bgp0)',
        'voff(result) >= voff(bgp0) + 2',
        'nops >= 1',
    ],
    result_value=_po_result,
    effect=lambda it, cfr, fr: cfr.locs['rules'].items.append((it.ctx.fresh('rule!key'), 1)) if hasattr(cfr.locs['rules'], 'items') else None,
    canaries=[
        ('value_bytes, bgp = bytes(bgp[:length]), bgp[length:]', 'value_bytes, bgp = bytes(bgp[:length]), bgp[length + 1:]'),
        ('if len(value_bytes) != length:', 'if len(value_bytes) > length:'),
        ('byte, bgp = bgp[0], bgp[1:]', 'byte, bgp = bgp[0], bgp[0:]'),
    ],
)
REG.mark_inline(FL, 'CommonOperator.eol', 'CommonOperator.operator', 'CommonOperator.length')


def _make_prefix(it, args, kwargs, fr, node):
    """klass.make(bgp) for a prefix component: consumes mask (+ offset for IPv6) + ceil(mask/8) bytes, or fails
    (assumed contract; IPrefix4.make / IPrefix6.make and CIDR decoding are verified under C15/C02)"""
    from pyvc.interp import Raise

    ctx = it.ctx
    b = args[0].pieces[0] if args[0].pieces else None
    if b is not None:
        ctx.oblige('prefix:after-type-byte', 'pre', to_z3(fr.lookup('what')) == z3.Select(b.arr(), to_z3(b.off) - 1), 'the prefix component handed to make() starts right after its type byte')
    which = ctx.fresh('make!outcome')
    ctx.assume(z3.And(which >= 0, which <= 2))
    if b is None or ctx.branch(which == 1):
        raise Raise(VExc(IndexError, ('truncated prefix',)))
    if ctx.branch(which == 2):
        raise Raise(VExc(ValueError, ('bad mask',)))
    k = ctx.fresh('prefix!consumed')
    ctx.assume(z3.And(k >= 1, k <= to_z3(b.len)))
    rest = VBytes([Piece('view', b.a, simp(b.off + k), simp(b.len - k))], args[0].kind)
    return VTuple([VObj(None, {'ID': ctx.fresh('prefix.ID')}, 'prefix'), rest])


contract(
    FL,
    'Flow._parse_rules',
    props=('C16', 'C03'),
    params={'self': obj(FLOW, _packed=bytes_(0, 4095), safi=int_(133, 134), afi=int_(1, 2))},
    callees={'klass.make': _make_prefix, 'rules.setdefault(adding.ID, []).append': lambda it, a, k, fr, n: (fr.lookup('rules').items.append((it.ctx.fresh('rule!key'), 1)) if hasattr(fr.lookup('rules'), 'items') else None)},
    lets={'packed0': 'self._packed'},
    loops={0: {'subviews': {'bgp': 'packed0'}, 'inv': ['voff(bgp) + len(bgp) == voff(packed0) + len(packed0)'], 'decreases': 'len(bgp)'}},
    raises=[{'exc': 'Notify', 'args': '(3, 10)'}],
    escapes=['ValueError'],
    ensures=[
        # a rule is delivered only when the WHOLE payload was walked: an undefined component or a truncated value can
        # never leave a shorter, broader rule behind
        'len(bgp) == 0',
    ],
    notes=['ValueError from a prefix component is converted to INVALID by the caller (Flow.unpack_nlri)'],
    canaries=[
        ("raise Notify(3, 10, 'flow component %d is not one this family defines' % what)", 'break'),
        ('what, bgp = bgp[0], bgp[1:]', 'what, bgp = bgp[0], bgp[0:]'),
    ],
)
