"""C14 — reactor/api/processes.py: command lines are reassembled from the pipe independently of how it is chunked.

Text is modelled as a view of code points into ONE array S = old buffer ++ chunk (S[0:b] is what was buffered,
S[b:n] what this read delivered).  Chunking independence is then the induction over calls whose step is this contract:
the commands queued are the complete lines of S, in order, and the new buffer is the text after the last newline."""

import z3
from .common import *
from pyvc.interp import subview_formula

PR = 'reactor/api/processes.py'
NL = 10


def _S(it):
    return z3.Const('S!a', ARR)


def _buffered(it, args, kwargs, fr, node):
    """self._buffer.get(process_name, ''): the text kept from earlier reads = S[0:b]"""
    return VBytes([Piece('view', _S(it), 0, fr.lookup('b'))], 'str')


def _chunk(it, name):
    b, n = z3.Int('b'), z3.Int('n')
    it.ctx.assume(z3.And(b >= 0, n >= b))
    it.ctx.inputs['b'] = ('int', b)
    it.ctx.inputs['n'] = ('int', n)
    it.ctx.byte_axiom(_S(it))
    v = VBytes([Piece('view', _S(it), b, n - b)], 'str')
    it.ctx.inputs['S'] = ('bytes', VBytes([Piece('view', _S(it), 0, n)], 'str'))
    return v


def _queue_append(it, args, kwargs, fr, node):
    """self._command_queue.append((process, formated(line))): one command is queued.  Obligations: it is a COMPLETE
    line of S -- it starts where the previous line ended, and is followed by the first newline after its start"""
    ctx = it.ctx
    head, tail, whole = ctx.ghost.get('last_split', (None, None, None))
    if head is None:
        ctx.oblige('line:from-split', 'post', False, 'a queued command does not come from a split at a newline')
        return None
    S = _S(it)
    start = head.pieces[0].off if head.pieces else whole.pieces[0].off
    ln = head.length()
    ctx.oblige('line:starts-at-boundary', 'post', to_z3(start) == to_z3(fr.lookup('next_pos')), 'the command starts where the previous line ended (no byte skipped, none re-read)')
    ctx.oblige('line:ends-at-newline', 'post', z3.Select(S, to_z3(start) + to_z3(ln)) == NL, 'the command is followed by a newline')
    k = z3.Int('k!ln')
    ctx.oblige('line:no-newline-inside', 'post', z3.ForAll([k], z3.Implies(z3.And(k >= to_z3(start), k < to_z3(start) + to_z3(ln)), z3.Select(S, k) != NL)), 'the command holds no newline: it is exactly one line')
    # ... and is no longer than the cap, in whichever read its newline came (the guard on the partial line refuses it when the
    # newline comes later: accepting it here would make the commands executed depend on the chunking)
    from exabgp.reactor.api.processes import Processes

    ctx.oblige('line:within-cap', 'post', to_z3(ln) <= Processes.MAX_COMMAND_SIZE, 'a queued command is at most MAX_COMMAND_SIZE long')
    # the text handed to formated() is a window of that line (rstrip only removes from its right end)
    cmd = args[0].items[1] if isinstance(args[0], VTuple) else None
    _gset(fr, 'queued', simp(fr.lookup('queued') + 1))
    return None


def _gset(fr, name, v):
    f = fr
    while f is not None:
        if name in f.locs:
            f.locs[name] = v
            return
        f = f.parent
    fr.locs[name] = v


def _set_buffer(it2, o, k, v):
    o.fields['stored'] = v
    return None


def _formated(it, args, kwargs, fr, node):
    # the split consumed one line: the next one starts right after its newline
    head, tail, whole = it.ctx.ghost.get('last_split', (None, None, None))
    return VStr(it.ctx.fresh('command'), 'command')


contract(
    PR,
    'Processes._async_reader_callback',
    props=('C14',),
    segment={'from': "raw = self._buffer.get(process_name, '') + buf", 'to': 'if undecodable is not None:'},
    params={
        'self': obj('exabgp.reactor.api.processes:Processes', _buffer=custom(lambda it, n: VObj(None, {'setitem!': _set_buffer, 'stored': None}, '_buffer')), _command_queue=obj(None)),
        'process_name': str_(),
        'buf': custom(_chunk),
    },
    ghost={'queued': const(0), 'next_pos': const(0), 'problem': const(False)},
    specfns={'S_at': VSpecFn(lambda it, k: z3.Select(z3.Const('S!a', ARR), to_z3(k))), 'b_': VSpecFn(lambda it: z3.Int('b')), 'n_': VSpecFn(lambda it: z3.Int('n'))},
    # class invariant of the buffer (re-established below): what is kept between reads holds no newline
    requires=['forall(lambda k: S_at(k) != 10, 0, b_())'],
    callees={
        'self._buffer.get': _buffered,
        'self._buffer.pop': noop,
        'self._handle_problem': lambda it, a, k, fr, n: _gset(fr, 'problem', True),
        'self._command_queue.append': _queue_append,
        'formated': _formated,
    },
    setup=lambda it, fr: [fr.locs.__setitem__('b', z3.Int('b')), fr.locs.__setitem__('n', z3.Int('n'))],
    loops={
        0: {
            'entry_lets': {'all0': 'raw'},
            'subviews': {'raw': 'all0'},
            'inv': [
                # what is left is the tail of S ...
                'voff(raw) + len(raw) == n_()',
                # ... starting at a line boundary (start of S or right after a newline) ...
                'voff(raw) == 0 or vbefore(raw) == 10',
                # ... which is where the next command must start
                'next_pos == voff(raw)',
                'queued >= 0',
            ],
            'decreases': 'len(raw)',
            'modifies': ['queued', 'next_pos'],
            # ghost code: whatever the line was (command or debug), the next one starts where the remainder starts
            'ghost_step': {'next_pos': 'voff(raw)'},
        }
    },
    ensures=[
        # unless the line-length guard fired, the new buffer is exactly the text after the LAST newline of S
        'implies(not problem, self._buffer.stored is not None)',
        'implies(not problem and self._buffer.stored is not None, voff(self._buffer.stored) + len(self._buffer.stored) == n_())',
        'implies(not problem and self._buffer.stored is not None, voff(self._buffer.stored) == 0 or vbefore(self._buffer.stored) == 10)',
        # and it holds no newline: the class invariant is re-established, every complete line has been queued
        "implies(not problem and self._buffer.stored is not None, not ('\\n' in self._buffer.stored))",
    ],
    notes=[
        'segment contract: the line reassembly of _async_reader_callback (from the concatenation with the kept buffer to the store of the new buffer); process polling, EOF and error handling around it are not under contract',
        'text is a view of code points into one array S = old buffer ++ chunk; rstrip() keeps a sub-window of the line (which characters it removes is not modelled); formated() is opaque',
        'the memory guard: a line over MAX_COMMAND_SIZE is refused whether its newline has come or not (obligation line:within-cap on every queued command); the clauses on the kept buffer hold when the guard does not fire; WHEN the helper is refused for a partial line (this read or the next) is not under contract',
        'the decoding of the bytes read (the valid prefix is kept when a byte is not ASCII, the helper refused after its lines are queued) precedes the segment: bounded check streams-the-reader-refuses',
    ],
    canaries=[
        ("line, raw = raw.split('\\n', 1)", "line, raw = raw.split('\\n', 1)\n                raw = raw[1:]"),
        ('self._buffer[process_name] = raw', "self._buffer[process_name] = raw[1:]"),
    ],
)
