"""C02 / C03 / C08 — attribute/collection.py: the attribute TLV walk; update/collection.py: _parse_payload"""

import z3
from .common import *
from pyvc.interp import Raise

AC = 'bgp/message/update/attribute/collection.py'
UC = 'bgp/message/update/collection.py'
ACC = 'exabgp.bgp.message.update.attribute.collection:AttributeCollection'

taw_f = z3.Function('cls_taw', I, B)  # class of attribute `aid` is treat-as-withdraw
dis_f = z3.Function('cls_discard', I, B)
nod_f = z3.Function('cls_noduplicate', I, B)
vz_f = z3.Function('cls_validzero', I, B)
known_f = z3.Function('cls_known', I, B)  # a class is registered for aid (any flag)
reg_f = z3.Function('registered', I, I, B)


def _klass_by_id(it, args, kwargs, fr, node):
    aid = to_z3(args[0])
    return VObj(None, {'bool!': known_f(aid), 'none!': z3.Not(known_f(aid)), 'NO_DUPLICATE': nod_f(aid), 'VALID_ZERO': vz_f(aid), 'TREAT_AS_WITHDRAW': taw_f(aid), 'DISCARD': dis_f(aid)}, 'kls')


def _registered(it, args, kwargs, fr, node):
    r = reg_f(to_z3(args[0]), to_z3(args[1]))
    # registry invariant: klass_by_id searches the same table, so a registered (aid, flag) has a class
    it.ctx.assume(z3.Implies(r, known_f(to_z3(args[0]))))
    try:
        _gset(fr, 'reg_called', True)
        _gset(fr, 'reg_result', r)
    except Exception:  # noqa: the other users of this handler have no such ghost
        pass
    return r


def _marker(kind):
    def h(it, args, kwargs, fr, node):
        return VObj(None, {'kind!': kind}, kind)

    return h


def _add(it, args, kwargs, fr, node):
    L = fr.locs
    o = args[0]
    kind = o.fields.get('kind!') if isinstance(o, VObj) else None
    if kind == 'taw':
        _gset(fr, 'taw_added', True)
    elif kind == 'discard':
        _gset(fr, 'discard_added', True)
    else:
        _gset(fr, 'decoded_added', simp(fr.lookup('decoded_added') + 1))
    return None


def _gset(fr, name, v):
    f = fr
    while f is not None:
        if name in f.locs:
            f.locs[name] = v
            return
        f = f.parent
    fr.locs[name] = v


def _attr_unpack(it, args, kwargs, fr, node):
    """Attribute.unpack(aid, flag, value, negotiated): the obligation is that the decoder is handed EXACTLY the value
    bytes of this attribute; its verdict (attribute / IndexError / ValueError / Notify) is the decoder's own contract"""
    ctx = it.ctx
    value = args[2]
    d0 = fr.lookup('data0')
    hdr, ln = fr.lookup('HDR'), fr.lookup('LEN')
    from pyvc.interp import subview_formula

    ok = subview_formula(value, d0)
    if ok is not False and value.pieces:
        p, b = value.pieces[0], d0.pieces[0]
        ok = z_and(ok, to_z3(p.off) == to_z3(b.off) + to_z3(hdr), to_z3(p.len) == to_z3(ln))
    elif ok is not False:
        ok = simp(to_z3(ln) == 0)
    ctx.oblige('decoder:value-bytes', 'post', ok, 'the decoder is given exactly data[hdr:hdr+length] of this attribute')
    _gset(fr, 'decoder_calls', simp(fr.lookup('decoder_calls') + 1))
    which = ctx.fresh('attr!outcome')
    ctx.assume(z3.And(which >= 0, which <= 3))
    if ctx.branch(which == 1):
        raise Raise(VExc(IndexError, ('short',)))
    if ctx.branch(which == 2):
        raise Raise(VExc(ValueError, ('bad',)))
    if ctx.branch(which == 3):
        raise Raise(VExc(REG.resolve_exc('Notify'), (3, ctx.fresh('n!sub'), 'bad attribute')))
    return VObj(None, {'kind!': 'attr'}, 'attribute')


def _make_generic(it, args, kwargs, fr, node):
    ctx = it.ctx
    nd = ctx.fresh('generic!fails', B)
    if ctx.branch(nd):
        raise Raise(VExc(IndexError, ('short',)))
    return VObj(None, {'kind!': 'attr'}, 'generic')


def _contains_aid(it2, o, item):
    return it2.ctx.fresh('already_present', B)


SELF = obj(ACC, **{'contains!': const(_contains_aid)})
HDRX = '(4 if (data[0] // 16) % 2 == 1 else 3)'
LENX = '(data[2] * 256 + data[3] if (data[0] // 16) % 2 == 1 else data[2])'

contract(
    AC,
    'AttributeCollection._parse_one',
    props=('C02', 'C03', 'C08'),
    params={'self': SELF, 'data': bytes_(1, 65535, 'memoryview'), 'negotiated': obj(None)},
    ghost={'taw_added': const(False), 'discard_added': const(False), 'decoded_added': const(0), 'decoder_calls': const(0), 'reg_called': const(False), 'reg_result': const(True)},
    lets={'data0': 'data', 'HDR': HDRX, 'LEN': LENX, 'aid0': 'data[1]', 'overrun': f'len(data) < {HDRX} or {LENX} > len(data) - {HDRX}'},
    callees={
        'Attribute.Flag': lambda it, a, k, fr, n: a[0],
        'Attribute.klass_by_id': _klass_by_id,
        'Attribute.registered': _registered,
        'Attribute.unpack': _attr_unpack,
        'GenericAttribute.make_generic': _make_generic,
        'TreatAsWithdraw': _marker('taw'),
        'Discard': _marker('discard'),
        'self.add': _add,
        'Attribute.CODE.name': returns_fresh('str', label='name'),
    },
    raises=[
        {'exc': 'Notify', 'when': 'not overrun', 'cover': False},
        # a decoder failure on a class that is neither treat-as-withdraw nor discard is re-raised (then 1/0 upstream)
        {'exc': 'IndexError', 'when': 'not overrun and not cls_taw(aid0) and not cls_discard(aid0)', 'cover': False},
        {'exc': 'ValueError', 'when': 'not overrun and not cls_taw(aid0) and not cls_discard(aid0)', 'cover': False},
    ],
    ensures=[
        # RFC 7606 section 4: a truncated header or a length overrunning the block is treat-as-withdraw and ends the
        # walk; it is never decoded from the shorter slice
        'implies(overrun, taw_added and len(result) == 0 and decoder_calls == 0 and decoded_added == 0)',
        # otherwise exactly this TLV is consumed: what is left is data[hdr+length:] of the same buffer
        'implies(not overrun, subview(result, data0) and voff(result) == voff(data0) + HDR + LEN and len(result) == len(data0) - HDR - LEN)',
        # progress, hence termination and a bounded number of iterations (<= len/3)
        'len(result) < len(data0)',
        'decoder_calls <= 1 and decoded_added <= 1',
        # a failing decoder never leaves a decoded attribute behind
        'implies(taw_added or discard_added, decoded_added == 0)',
        # RFC 7606 section 3.c: "If the value of either the Optional or Transitive bits in the Attribute Flags is in
        # conflict with their specified values, then the attribute MUST be treated as malformed and the treat-as-withdraw
        # approach used" -- for every attribute code the implementation knows, whatever section 7 says about its VALUE
        # (MP_REACH_NLRI / MP_UNREACH_NLRI do not return: they are refused with a NOTIFICATION)
        'implies(reg_called and not reg_result and (aid0 in Attribute.attributes_known), taw_added and decoded_added == 0)',
    ],
    specfns={'cls_taw': VSpecFn(lambda it2, a: taw_f(to_z3(a))), 'cls_discard': VSpecFn(lambda it2, a: dis_f(to_z3(a))), 'cls_known': VSpecFn(lambda it2, a: known_f(to_z3(a)))},
    result_value=lambda it, cfr: _suffix_of(it, cfr.locs['data']),
    canaries=[
        ('if length > len(data):', 'if length > len(data) + 1:'),
        ('left = data[length:]', 'left = data[length + 1:]'),
        ('attribute = data[:length]', 'attribute = data[:length + 1]'),
        ('length = (length << 8) + data[3]', 'length = (length << 7) + data[3]'),
        ('offset = 4', 'offset = 3'),
    ],
)


def _suffix_of(it, d):
    if not d.pieces:
        return d
    b = d.pieces[0]
    k = it.ctx.fresh('consumed')
    it.ctx.assume(z3.And(k >= 1, k <= to_z3(b.len)))
    return VBytes([Piece('view', b.a, simp(b.off + k), simp(b.len - k))], d.kind)


contract(
    AC,
    'AttributeCollection.parse',
    props=('C02', 'C03', 'C08'),
    params={'self': SELF, 'data': bytes_(0, 65535, 'memoryview'), 'negotiated': obj(None)},
    lets={'data0': 'data'},
    loops={0: {'subviews': {'data': 'data0'}, 'inv': ['len(data) <= len(data0)'], 'decreases': 'len(data)'}},
    raises=[{'exc': 'Notify', 'cover': False}, {'exc': 'IndexError', 'cover': False}, {'exc': 'ValueError', 'cover': False}],
    ensures=['result is self', 'len(final(data)) == 0'],  # the whole attribute block is walked
    notes=['termination and recursion depth: the walk is a loop (depth 1) whose variant len(data) strictly decreases; iterations <= len(data)/3'],
    canaries=[('while data:', 'while len(data) > 1:')],
)


# ------------------------------------------------------------------------------------------------ _parse_payload: treat-as-withdraw (C08)


def _setup_pp(it, fr):
    fr.locs['n_ann0'] = fr.locs['announces'].length if hasattr(fr.locs['announces'], 'length') else 0


class _AttrsObj:
    pass


def _contains_code(it2, o, item):
    """`code in attributes` for the four codes _parse_payload asks about"""
    f = o.fields
    r = False
    for code, name in ((0xFFFF, 'marker'), (1, 'has_origin'), (2, 'has_aspath'), (3, 'has_nexthop')):
        r = z_or(r, z_and(it2.equals(item, code, None), f[name]))
    return simp(r)


def _extend_withdraws(it, args, kwargs, fr, node):
    _gset(fr, 'moved', True)
    return None


def _attrs_with_nexthop(it, name):
    """the decoded collection at the end of _parse_payload: which mandatory attributes it holds, the marker, and the
    NEXT_HOP attribute with the length of its value"""
    c = it.ctx
    nlen = c.fresh('len(NEXT_HOP)')
    c.assume(z3.And(nlen >= 0, nlen <= 65535))
    c.inputs.setdefault(str(nlen), ('int', nlen))
    fields = {}
    for f_ in ('marker', 'has_origin', 'has_aspath', 'has_nexthop'):
        v = c.fresh(f'{name}.{f_}', B)
        c.inputs.setdefault(str(v), ('bool', v))
        fields[f_] = v
    fields['nexthop_len'] = nlen
    fields['contains!'] = _contains_code
    nh = VObj(None, {'_packed': c.fresh_bytes('NEXT_HOP._packed', 'bytes', length=nlen), 'bool!': True}, 'NEXT_HOP')
    fields['getitem!'] = lambda it2, o, k: nh
    return VObj(None, fields, name)


contract(
    UC,
    'UpdateCollection._parse_payload',
    props=('C08',),
    segment={'from': 'if announces and (', 'to': None},
    params={
        'cls': const(None),
        'attributes': custom(lambda it, n: _attrs_with_nexthop(it, n)),
        'announces': seq(obj(None, nlri=obj(None))),
        'announced_view': bytes_(0, 4096),
        'withdraws': obj(None),
    },
    ghost={'moved': const(False)},
    callees={'withdraws.extend': _extend_withdraws, 'cls': lambda it, a, k, fr, n: VTuple(a)},
    # RFC 7606 3.d (a mandatory attribute is missing) and 7.3 (the NEXT_HOP of the routes of the NLRI field is 4 octets)
    lets={'missing': 'len(announces) > 0 and (not attributes.has_origin or not attributes.has_aspath or (len(announced_view) > 0 and (not attributes.has_nexthop or attributes.nexthop_len != 4)))'},
    ensures=[
        # RFC 7606: treat-as-withdraw marker, or (section 3.d) routes announced without ORIGIN / AS_PATH / (NEXT_HOP when the
        # NLRI field is used) => nothing is announced, and the announced NLRI were handed to the withdraw list
        'implies(attributes.marker or missing, len(result[0]) == 0)',
        'implies((attributes.marker or missing) and len(announces) > 0, moved)',
        'implies(not attributes.marker and not missing, result[0] is announces and not moved)',
    ],
    notes=['segment contract: the two final treat-as-withdraw conversions of _parse_payload (missing mandatory attribute, malformed-attribute marker); the NLRI loops above them are covered by the bounded corruption sweep'],
    canaries=[("or Attribute.CODE.AS_PATH not in attributes", "or False"), ("            withdraws.extend(routed.nlri for routed in announces)\n            announces = []\n\n        return cls(", "            withdraws.extend(routed.nlri for routed in announces)\n            announces = announces\n\n        return cls(")],
)


# ------------------------------------------------------------------------------------------------ the decoded-set cache (C19, C08)

TAW, ASP, AS4P, MPR, MPU = 0xFFFF, 2, 17, 14, 15


def _coll_contains(it2, o, item):
    f = o.fields
    r = False
    for code, name in ((TAW, 'has_taw'), (ASP, 'has_aspath'), (AS4P, 'has_as4path'), (MPR, 'has_mpr'), (MPU, 'has_mpu')):
        r = z_or(r, z_and(it2.equals(item, code, None), f[name]))
    return simp(r)


def _collection(it, name, data, ctx, maybe_none=False):
    """an AttributeCollection with ghost fields: the bytes and session context it is the decode of"""
    c = it.ctx
    fields = {
        'of_bytes': data,
        'of_ctx': ctx,
        'has_taw': c.fresh(name + '.taw', B),
        'has_aspath': c.fresh(name + '.aspath', B),
        'has_as4path': c.fresh(name + '.as4path', B),
        'has_mpr': c.fresh(name + '.mpr', B),
        'has_mpu': c.fresh(name + '.mpu', B),
        'contains!': _coll_contains,
    }
    nonempty = c.fresh(name + '.nonempty', B)
    if maybe_none:
        isnone = c.fresh(name + '.none', B)
        fields['none!'] = isnone
        fields['bool!'] = z3.And(z3.Not(isnone), nonempty)
    else:
        fields['bool!'] = nonempty
    return VObj(None, fields, name)


def _cls_param(it, name):
    c = it.ctx
    prev = c.fresh_bytes('cls.previous')
    pctx = VTuple([c.fresh('cls.previous_context.0', B), c.fresh('cls.previous_context.1', B)])
    cached = _collection(it, 'cls.cached', c.fresh_bytes('cached.of_bytes'), VTuple([c.fresh('cached.of_ctx.0', B), c.fresh('cached.of_ctx.1', B)]), maybe_none=True)
    return VObj(None, {'cached': cached, 'previous': prev, 'previous_context': pctx}, 'cls')


def _parse_call(it, args, kwargs, fr, node):
    """cls().parse(data, negotiated): a fresh collection which is the decode of exactly (data, asn4, aigp)
    (what _parse_one's decoders read of `negotiated` for cacheable sets is asn4 and aigp: scan obligation C19:reads)"""
    data, neg = args
    which = it.ctx.fresh('parse!outcome')
    it.ctx.assume(z3.And(which >= 0, which <= 1))
    if it.ctx.branch(which == 1):
        from pyvc.interp import Raise

        raise Raise(VExc(REG.resolve_exc('Notify'), (3, it.ctx.fresh('n!sub'), 'bad')))
    return _collection(it, 'parsed', data, VTuple([neg.fields['asn4'], neg.fields['aigp']]))


CACHE_INV = 'implies(cls.cached is not None, cls.previous == cls.cached.of_bytes and cls.previous_context == cls.cached.of_ctx and not cls.cached.has_taw and not cls.cached.has_mpr and not cls.cached.has_mpu)'

contract(
    AC,
    'AttributeCollection.unpack',
    props=('C19', 'C08', 'C02'),
    params={'cls': custom(_cls_param), 'data': bytes_(0, 65535), 'negotiated': obj(None, asn4=bool_(), aigp=bool_())},
    requires=[CACHE_INV],
    # merge (2-byte session) and removal of AS4_PATH (4-byte session, RFC 6793 section 6): neither touches the ghost fields
    # this contract speaks about (bytes, context, markers, MP attributes)
    callees={'cls().parse': _parse_call, 'attributes.merge_attributes': noop, 'attributes.remove': noop},
    raises=[{'exc': 'Notify', 'cover': False}],
    ensures=[
        # what is returned is a decode of THESE bytes under THIS session's parameters -- fresh or cached
        'result.of_bytes == data',
        'result.of_ctx == (negotiated.asn4, negotiated.aigp)',
        # the class-level cache stays consistent: it only ever holds a clean (no treat-as-withdraw, no MP) decode of
        # the bytes and context recorded next to it
        CACHE_INV,
    ],
    final=[CACHE_INV],
    canaries=[
        ('and context == cls.previous_context', ''),
        ('            cls.previous = data\n', '            cls.previous = cls.previous\n'),
        ("        if Attribute.CODE.INTERNAL_TREAT_AS_WITHDRAW in attributes:\n            return attributes\n", ''),
    ],
)
