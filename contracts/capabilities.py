"""C03 / C07 — open/capability/capabilities.py: Capabilities.unpack (RFC 5492 / RFC 9072 optional parameters)"""

import z3
from .common import *
from pyvc.interp import Raise

CP = 'bgp/message/open/capability/capabilities.py'


def _caps_obj(it, args, kwargs, fr, node):
    return VObj(None, {'setitem!': lambda it2, o, k, v: None}, 'capabilities')


def _cap_unpack(it, args, kwargs, fr, node):
    """Capability.unpack(code, capabilities, value): a capability object, or Notify (each capability decoder has its own
    obligations; here it is the walk around them that is under contract)"""
    capv = args[2]
    if isinstance(capv, VBytes) and capv.pieces and len(capv.pieces) == 1 and capv.pieces[0].kind == 'view':
        p_ = capv.pieces[0]
        # RFC 5492: <code, length, value>: the value handed to the decoder is exactly as long as its length octet says
        # (a capability that overruns its parameter must not be accepted as a shorter one)
        it.ctx.oblige('capability:declared-length', 'post', z3.Select(p_.arr(), to_z3(p_.off) - 1) == to_z3(p_.len), 'the capability value is exactly as long as its length octet declares')
    elif isinstance(capv, VBytes) and not capv.pieces:
        pass
    nd = it.ctx.fresh('cap!bad', B)
    if it.ctx.branch(nd):
        raise Raise(VExc(REG.resolve_exc('Notify'), (2, it.ctx.fresh('n!sub'), 'bad capability')))
    return VObj(None, {}, 'capability')


# RFC 9072 section 2: the extended encoding is in use when the Non-Ext OP Type (second octet) is 255; the Non-Ext OP Len
# (first octet) SHOULD be 255 and MUST be ignored on receipt -- a zero length still means "no optional parameter".  (The
# first version of this line required BOTH octets to be 255: copied from the code, it carried its defect.)
FMT = '(data0[0] != 0 and len(data0) >= 2 and data0[1] == 255)'
L16 = '(data0[2] * 256 + data0[3])'

contract(
    CP,
    'Capabilities.unpack',
    props=('C03', 'C07', 'C10'),
    params={'data': bytes_(0, 65535, 'memoryview')},
    lets={'data0': 'data'},
    callees={
        'Capabilities': _caps_obj,
        'Capability.unpack': _cap_unpack,
        'Capability.hex': returns_fresh('str', label='hex'),
        'CapabilityCode': lambda it, a, k, fr, n: a[0],
    },
    loops={
        0: {
            'entry_lets': {'params0': 'data'},
            'subviews': {'data': 'params0'},
            'inv': [
                # WHICH bytes are the parameters: RFC 9072 extended format iff the type octet is 255 (whatever the non-zero
                # length octet says), otherwise the classic one-octet length -- including a classic OPEN that carries
                # exactly 255 octets of parameters
                f'voff(params0) == voff(data0) + (4 if {FMT} else 1)',
                f'len(params0) == ({L16} if {FMT} else data0[0])',
                'voff(data) + len(data) == voff(params0) + len(params0)',
            ],
            'decreases': 'len(data)',
        },
        1: {
            'entry_lets': {'value0': 'value'},
            'subviews': {'value': 'value0'},
            'inv': ['voff(value) + len(value) == voff(value0) + len(value0)'],
            'decreases': 'len(value)',
        },
    },
    # a malformed OPEN is refused with an OPEN Message Error (2/x); nothing else may come out, both walks terminate
    raises=[{'exc': 'Notify', 'args': '(2,)'}],
    ensures=[],
    canaries=[
        ('            if option_type == Capabilities.EXTENDED_LENGTH:', '            if option_type == Capabilities.EXTENDED_LENGTH or True:'),
        ('            boundary: int = ld + 2\n            if len(data) < boundary:\n                raise Notify(2, 0, \'Bad length for OPEN {} (buffer underrun)', '            boundary: int = ld + 2\n            if len(data) < boundary - 1:\n                raise Notify(2, 0, \'Bad length for OPEN {} (buffer underrun)'),
    ],
)
