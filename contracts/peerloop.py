"""C12 — reactor/peer/peer.py: the two places where a message read from the peer meets the timers.

The timer contracts (contracts/timer.py) say what check_ka_timer / send_if_needed do WHEN THEY ARE CALLED WITH THE MESSAGE
JUST READ.  That assumption about the callers is stated here as call-site obligations on the real statements:

  Peer._read_ka                      the KEEPALIVE which confirms the OPEN is handed to the hold timer (it restarts it)
  Peer._main, read-and-timers turn   on EVERY turn of the loop: the hold timer is given the message read in this turn
                                     (the no-message marker when the read has not finished) and the send-KEEPALIVE timer
                                     is looked at -- whether or not something was read
"""

import z3
from .common import *
from .connection import _set_ghost

PEER = 'reactor/peer/peer.py'


def _marked(name):
    return VObj(None, {'bool!': True, 'none!': False, 'id!': z3.IntVal(hash(name) % 100000 + 7)}, name)


# ----------------------------------------------------------------------------------------------------------- _read_ka
def _read_keepalive(it, args, kwargs, fr, node):
    m = _marked('the KEEPALIVE just read')
    _set_ghost(fr, 'read', m)
    return m


def _check_timer(it, args, kwargs, fr, node):
    got = args[0] if args else kwargs.get('message')
    want = fr.lookup('read')
    ok = got is want
    _set_ghost(fr, 'timer_calls', simp(fr.lookup('timer_calls') + 1))
    it.ctx.oblige('pre@check_ka_timer:message', 'pre', bool(ok), 'the hold timer is given the message just read (it is what restarts it)', getattr(node, 'lineno', 0))
    return it.ctx.fresh('expired', z3.BoolSort())


def _wait_for(it, args, kwargs, fr, node):
    """asyncio.wait_for(awaitable, timeout): the awaitable's result, or TimeoutError when a timeout is set"""
    from pyvc.interp import exc
    import asyncio

    t = kwargs.get('timeout', args[1] if len(args) > 1 else None)
    if t is not None and it.ctx.branch(it.ctx.fresh('wait_for times out', z3.BoolSort())):
        _set_ghost(fr, 'timed_out', True)
        raise exc(asyncio.TimeoutError)
    return args[0]


contract(
    PEER,
    'Peer._read_ka',
    props=('C12',),
    params={'self': obj(None, proto=obj(None, negotiated=obj(None, holdtime=int_(0, 65535))), recv_timer=obj(None))},
    ghost={'read': const(None), 'timer_calls': const(0), 'timed_out': const(False)},
    callees={'self.proto.read_keepalive': _read_keepalive, 'self.recv_timer.check_ka_timer': _check_timer, 'asyncio.wait_for': _wait_for},
    # the wait for the confirming KEEPALIVE is bounded by the negotiated hold time: Hold Timer Expired, and only when one is set
    raises=[{'exc': 'Notify', 'args': '(4, 0)', 'iff': 'timed_out', 'also': ['self.proto.negotiated.holdtime > 0']}],
    ensures=['timer_calls == 1'],
    canaries=[('self.recv_timer.check_ka_timer(message)', 'self.recv_timer.check_ka_timer()')],
    notes=['read_keepalive and check_ka_timer by assumed contract (the second is proved in contracts/timer.py)'],
)


# ------------------------------------------------------------------------------------------ one turn of Peer._main
def _ensure_future(it, args, kwargs, fr, node):
    return _marked('read task')


def _wait(it, args, kwargs, fr, node):
    d = it.ctx.fresh('the read finished in this turn', z3.BoolSort())
    it.ctx.inputs.setdefault(str(d), ('bool', d))
    _set_ghost(fr, 'finished_now', d)
    done = VObj(None, {'bool!': d}, 'done')
    return VTuple([done, VObj(None, {'bool!': z3.Not(d)}, 'pending')])


def _result(it, args, kwargs, fr, node):
    m = _marked('the message just read')
    m.fields['SCHEDULING'] = False  # a real message: only the no-message marker has it set
    m.fields['opaque!'] = True
    _set_ghost(fr, 'read', m)
    return m


def _check_ka(it, args, kwargs, fr, node):
    got = args[0] if args else kwargs.get('message')
    d = fr.lookup('finished_now')
    nop = fr.globs.get('_NOP')
    read = fr.lookup('read')
    _set_ghost(fr, 'timer_calls', simp(fr.lookup('timer_calls') + 1))
    if read is not None:
        ok = got is read
        text = 'a message was read in this turn: the hold timer is given that message'
    else:
        ok = got is nop
        text = 'nothing was read in this turn: the hold timer is given the no-message marker'
    it.ctx.oblige('pre@check_ka:message', 'pre', bool(ok), text, getattr(node, 'lineno', 0))
    return None


def _send_if_needed(it, args, kwargs, fr, node):
    _set_ghost(fr, 'send_timer_calls', simp(fr.lookup('send_timer_calls') + 1))
    return None


contract(
    PEER,
    'Peer._main#read-and-timers',
    props=('C12',),
    segment={'from': 'if read_task is None:', 'to': 'for counter_line in self.stats.changed_statistics()'},
    params={'self': obj(None, proto=obj(None), recv_timer=obj(None))},
    setup=lambda it, fr: (fr.locs.__setitem__('read_task', VIte(it.ctx.fresh('a read is pending from an earlier turn', z3.BoolSort()), _marked('read task (earlier turn)'), None)), fr.locs.__setitem__('send_ka', VObj(None, {}, 'send_ka'))),
    ghost={'read': const(None), 'timer_calls': const(0), 'send_timer_calls': const(0), 'finished_now': const(False)},
    callees={
        'asyncio.ensure_future': _ensure_future,
        'self.proto.read_message': noop,
        'asyncio.wait': _wait,
        'finished.result': _result,
        'asyncio.sleep': noop,
        'self.recv_timer.check_ka': _check_ka,
        'send_ka.send_if_needed': _send_if_needed,
    },
    final=[
        # every turn, read or not: both timers are looked at exactly once
        'timer_calls == 1',
        'send_timer_calls == 1',
    ],
    ensures=['timer_calls == 1', 'send_timer_calls == 1'],
    canaries=[
        ('self.recv_timer.check_ka(message)', 'self.recv_timer.check_ka()'),
        ('await send_ka.send_if_needed()', 'if message is _NOP:\n                    await send_ka.send_if_needed()'),
    ],
    notes=['one turn of the loop, from the read to the timers: the statements before (reload hand-over) and after (handlers, sends) are not part of this segment; asyncio.wait / ensure_future / result by assumed contract'],
)
