"""C18 — configuration/static/parser.py: a token is accepted iff the value can be sent, and is refused with ValueError
(the only exception Section.parse turns into a located error), never with struct.error / IndexError / OverflowError.

A token is an opaque string; int(tok) is an unconstrained integer (non-negative when tok.isdigit()); everything after
that is linear integer arithmetic."""

import z3
from .common import *

SP = 'configuration/static/parser.py'
U = 'exabgp.bgp.message.update.'
INT_OF = z3.Function('int_of', I, I)
ISDIGIT = z3.Function('str_isdigit', I, B)


def _token(name='tok'):
    def h(it, args, kwargs, fr, node):
        t = VStr(it.ctx.fresh(name), name)
        f = fr
        while f.parent is not None:
            f = f.parent
        f.locs['tok!'] = t
        it.ctx.inputs[name + ' (token id)'] = ('int', t.ident)
        it.ctx.inputs[name + ' int value'] = ('int', INT_OF(t.ident))
        it.ctx.inputs[name + ' isdigit'] = ('bool', ISDIGIT(t.ident))
        return t

    return h


SF = {
    'tokint': VSpecFn(lambda it: INT_OF(it_tok(it).ident)),
    'tokdigit': VSpecFn(lambda it: ISDIGIT(it_tok(it).ident)),
}
_cur = {}


def it_tok(it):
    return _cur['fr'].lookup('tok!') if 'fr' in _cur else None


def _setup(it, fr):
    _cur['fr'] = fr
    fr.locs['tok!'] = None


for file_cls, fn, width, canary in (
    ('attribute.med:MED', 'med', 4, ("if not value.isdigit():", "if value.isdigit() and False:")),
    ('attribute.localpref:LocalPreference', 'local_preference', 4, ("if not value.isdigit():", "if value.isdigit() and False:")),
):
    klass = REG.resolve_class(U + file_cls)
    REG.record_classes.add(klass)
    f = 'bgp/message/update/' + file_cls.split(':')[0].replace('.', '/') + '.py'
    REG.mark_inline(f, f'{klass.__name__}.__init__', f'{klass.__name__}.from_int')
    contract(
        SP,
        fn,
        props=('C18',),
        params={'tokeniser': obj(None)},
        setup=_setup,
        specfns=SF,
        callees={'tokeniser': _token()},
        # refused (with ValueError, the only exception the configuration layer reports) iff the text is not a number
        # the 4-byte field can hold
        raises=[{'exc': 'ValueError', 'iff': 'not tokdigit() or tokint() > 0xFFFFFFFF'}],
        ensures=[
            # accepted => carries the value as written, big-endian in 4 bytes: nothing wrapped or truncated
            'len(result._packed) == 4',
            '((result._packed[0] * 256 + result._packed[1]) * 256 + result._packed[2]) * 256 + result._packed[3] == tokint()',
        ],
        canaries=[canary],
    )

PI = REG.resolve_class(U + 'nlri.qualifier.path:PathInfo')
REG.record_classes.add(PI)
REG.mark_inline('bgp/message/update/nlri/qualifier/path.py', 'PathInfo.__init__', 'PathInfo.make_from_integer')


def _from_ip(it, args, kwargs, fr, node):
    from pyvc.interp import Raise

    nd = it.ctx.fresh('ip!bad', B)
    if it.ctx.branch(nd):
        raise Raise(VExc(ValueError, ('bad ip',)))
    return VObj(PI, {'_packed': it.ctx.fresh_bytes('pi', length=4)}, 'pathinfo')


contract(
    SP,
    'path_information',
    props=('C18', 'C01'),
    params={'tokeniser': obj(None)},
    setup=_setup,
    specfns=SF,
    callees={'tokeniser': _token(), 'PathInfo.make_from_ip': _from_ip},
    # RFC 7911: the path identifier is a 4-byte field: a larger number must be refused, not wrapped
    raises=[{'exc': 'ValueError', 'when': 'not tokdigit() or tokint() > 0xFFFFFFFF'}],
    ensures=[
        'implies(tokdigit(), tokint() <= 0xFFFFFFFF)',
        'implies(tokdigit(), ((result._packed[0] * 256 + result._packed[1]) * 256 + result._packed[2]) * 256 + result._packed[3] == tokint())',
    ],
    canaries=[('if pi.isdigit():', 'if not pi.isdigit():')],
)

COM = REG.resolve_class(U + 'attribute.community.initial.community:Community')
REG.record_classes.add(COM)
REG.mark_inline('bgp/message/update/attribute/community/initial/community.py', 'Community.__init__')
SUB = z3.Function('substr', I, I, I, I)


def _value_param(it, name):
    t = VStr(it.ctx.fresh('value'), 'value')
    it.ctx.inputs['value (token id)'] = ('int', t.ident)
    return t


contract(
    SP,
    '_community',
    props=('C18', 'C01'),
    params={'value': custom(_value_param)},
    specfns={
        'c_sep': VSpecFn(lambda it, v: z3.Function('str_find::', I, I)(v.ident)),
        'c_high': VSpecFn(lambda it, v: INT_OF(SUB(v.ident, z3.IntVal(0), z3.Function('str_find::', I, I)(v.ident)))),
        'c_low': VSpecFn(lambda it, v: INT_OF(SUB(v.ident, z3.Function('str_find::', I, I)(v.ident) + 1, z3.IntVal(-1)))),
        'hex_value': VSpecFn(lambda it, v: z3.Function('int16_of', I, I)(v.ident)),
    },
    # a token that begins with 0x carries no sign: when int(tok, 16) succeeds it is non-negative (checked natively:
    # int('0x-5', 16) is a ValueError)
    requires=['hex_value(value) >= 0'],
    # whatever the text, only ValueError may come out (struct.error from pack() would be an unhandled exception)
    raises=[{'exc': 'ValueError'}],
    ensures=[
        # <high>:<low> -- RFC 1997: two 16-bit halves; accepted => both fit and are carried as written
        'implies(c_sep(value) > 0, c_high(value) <= 65535 and c_low(value) <= 65535)',
        'implies(c_sep(value) > 0, result._packed[0] * 256 + result._packed[1] == c_high(value) and result._packed[2] * 256 + result._packed[3] == c_low(value))',
        'len(result._packed) == 4',
    ],
    notes=['named communities and the 0x / plain-integer forms: only their exception freedom is under contract (int(value, 16) is not modelled: that branch is out of reach and reported)'],
    canaries=[('if suffix_int > 0xFFFF:', 'if suffix_int > 0xFFFF + 1:')],
)
