"""C12 — bgp/timer.py, open/holdtime.py, reactor/keepalive.py"""

from .common import *

MSG = obj('exabgp.bgp.message:Message', TYPE=bytes_(1, 1), SCHEDULING=int_(0, 3))

contract(
    'bgp/timer.py',
    'ReceiveTimer.check_ka_timer',
    props=('C12', 'C10'),
    params={
        'self': obj('exabgp.bgp.timer:ReceiveTimer', holdtime=int_(0, 65535), last_read=int_(0), last_print=int_(0), code=int_(0, 255), subcode=int_(0, 255), message=str_(), single=bool_()),
        'message': MSG,
    },
    ghost={'now': real_()},
    callees={'time.time': returns('now')},
    # last_read was taken from an earlier reading of the same non-decreasing clock
    requires=['now >= 0', 'self.last_read <= int(now)'],
    lets={'H': 'self.holdtime', 'silence': '0 if message.SCHEDULING == 0 else int(now) - self.last_read'},
    result=bool_(),
    modifies=['self.last_read', 'self.last_print'],
    raises=[
        {
            'exc': 'Notify',
            'args': '(old(self.code), old(self.subcode))',
            'iff': 'H > 0 and silence > H',
            # never early, in real time: the real silence exceeds H as well
            'also': ['now - old(self.last_read) > H', 'message.SCHEDULING != 0'],
        }
    ],
    ensures=[
        'implies(H == 0, result == (message.TYPE != KeepAlive.TYPE))',
        'implies(H > 0, result == True)',
        # every non-scheduling message restarts the hold timer
        'implies(H > 0 and message.SCHEDULING == 0, self.last_read == int(now))',
        'implies(H > 0 and message.SCHEDULING != 0, self.last_read == old(self.last_read))',
        # a real silence of more than H+1 seconds is always noticed at the next call
        'not (H > 0 and message.SCHEDULING != 0 and now - old(self.last_read) > H + 1)',
        'self.holdtime == H and self.code == old(self.code) and self.subcode == old(self.subcode)',
    ],
    canaries=[
        ('elapsed > self.holdtime', 'elapsed >= self.holdtime'),
        ('if not message.SCHEDULING:', 'if message.SCHEDULING:'),
        ('if self.holdtime == 0:', 'if self.holdtime == 1:'),
    ],
)

contract(
    'bgp/timer.py',
    'ReceiveTimer.check_ka',
    props=('C12', 'C10'),
    params={
        'self': obj('exabgp.bgp.timer:ReceiveTimer', holdtime=int_(0, 65535), last_read=int_(0), last_print=int_(0), code=int_(0, 255), subcode=int_(0, 255), message=str_(), single=bool_()),
        'message': MSG,
    },
    ghost={'now': real_()},
    callees={'time.time': returns('now')},
    requires=['now >= 0', 'self.last_read <= int(now)'],
    lets={'H': 'self.holdtime', 'silence': '0 if message.SCHEDULING == 0 else int(now) - self.last_read', 'ka': 'message.TYPE == KeepAlive.TYPE'},
    raises=[
        {'exc': 'Notify', 'args': '(old(self.code), old(self.subcode))', 'iff': 'H > 0 and silence > H'},
        # hold time zero: a second KEEPALIVE is an OPEN error 2/6
        {'exc': 'Notify', 'args': '(2, 6)', 'iff': 'H == 0 and ka and old(self.single)'},
    ],
    ensures=[
        'implies(H == 0 and ka, self.single)',
        'implies(H > 0 or not ka, self.single == old(self.single))',
    ],
    canaries=[('if self.single:', 'if not self.single:')],
)

contract(
    'bgp/timer.py',
    'ReceiveTimer.__init__',
    props=('C12',),
    params={
        'self': obj('exabgp.bgp.timer:ReceiveTimer'),
        'session': const(None),
        'holdtime': int_(0, 65535),
        'code': int_(0, 255),
        'subcode': int_(0, 255),
        'message': str_(),
    },
    ghost={'now': real_()},
    callees={'time.time': returns('now')},
    requires=['now >= 0'],
    ensures=['self.holdtime == holdtime', 'self.last_read == int(now)', 'self.code == code and self.subcode == subcode', 'self.single == False'],
    canaries=[('self.last_read = int(time.time())', 'self.last_read = 0')],
)

contract(
    'bgp/timer.py',
    'SendTimer.need_ka',
    props=('C12',),
    params={'self': obj('exabgp.bgp.timer:SendTimer', keepalive=int_(0, 21845), last_print=int_(0), last_sent=int_(0))},
    ghost={'now': real_()},
    callees={'time.time': returns('now')},
    requires=['now >= 0', 'self.last_sent <= int(now)'],
    lets={'K': 'self.keepalive', 'due': 'self.keepalive > 0 and int(now) >= self.last_sent + self.keepalive'},
    result=bool_(),
    modifies=['self.last_sent', 'self.last_print'],
    ensures=[
        'result == due',
        'implies(K == 0, result == False)',  # hold time zero: no periodic keepalive
        'implies(result, self.last_sent == int(now))',
        'implies(not result, self.last_sent == old(self.last_sent))',
        # at most K seconds (+1 s flooring) between a True answer and the previous one, if polled
        'implies(K > 0 and not result, now - old(self.last_sent) < K + 1)',
        'self.keepalive == K',
    ],
    canaries=[('if left <= 0:', 'if left < 0:'), ('if not self.keepalive:', 'if self.keepalive:'), ('self.last_sent = now', 'self.last_sent = self.last_sent')],
)

contract(
    'bgp/timer.py',
    'SendTimer.__init__',
    props=('C12',),
    params={'self': obj('exabgp.bgp.timer:SendTimer'), 'session': const(None), 'holdtime': obj('exabgp.bgp.message.open.holdtime:HoldTime', **{'int!': int_(0, 65535)})},
    ghost={'now': real_()},
    callees={'time.time': returns('now')},
    requires=['now >= 0'],
    ensures=['self.keepalive == int(holdtime) // 3', 'self.last_sent == int(now)'],
    canaries=[('self.keepalive = holdtime.keepalive()', 'self.keepalive = int(holdtime)')],
)

contract(
    'bgp/message/open/holdtime.py',
    'HoldTime.keepalive',
    props=('C12',),
    params={'self': obj('exabgp.bgp.message.open.holdtime:HoldTime', **{'int!': int_(0, 65535)})},
    result=int_(),
    ensures=['result == int(self) // 3', 'implies(int(self) == 0, result == 0)', 'implies(int(self) >= 3, 1 <= result and 3 * result <= int(self))'],
    canaries=[('self.KEEPALIVE_DIVISOR', '2')],
    notes=['`/` is encoded over the reals (float rounding not modelled); complemented by exhaustive native evaluation of all 65536 hold times (bounded_c12)'],
)


def _new_keepalive(it, args, kwargs, fr, node):
    import z3
    from pyvc.interp import Raise

    fr.locs['sent'] = simp(fr.lookup('sent') + 1) if 'sent' in fr.locs else 1
    f = fr
    while f is not None and 'sent' not in f.locs:
        f = f.parent
    nd = it.ctx.fresh('send!fails', z3.BoolSort())
    if it.ctx.branch(nd):
        raise Raise(VExc(REG.resolve_exc('NetworkError'), ('send failed',)))
    return None


contract(
    'reactor/keepalive.py',
    'KA.send_if_needed',
    props=('C12',),
    params={'self': obj('exabgp.reactor.keepalive:KA', send_timer=obj('exabgp.bgp.timer:SendTimer', keepalive=int_(0, 21845), last_print=int_(0), last_sent=int_(0)), _proto=obj(None))},
    ghost={'now': real_(), 'sent': const(0)},
    callees={'time.time': returns('now'), 'self._proto.new_keepalive': _new_keepalive},
    requires=['now >= 0', 'self.send_timer.last_sent <= int(now)'],
    lets={'K': 'self.send_timer.keepalive', 'due': 'self.send_timer.keepalive > 0 and int(now) >= self.send_timer.last_sent + self.send_timer.keepalive'},
    raises=[{'exc': 'Notify', 'args': '(4, 0)', 'when': 'due and sent == 1'}],
    ensures=[
        # a KEEPALIVE is written exactly when one is due; with hold time zero (K == 0) never
        'result == due',
        'sent == (1 if due else 0)',
        'implies(K == 0, sent == 0)',
    ],
    canaries=[('if not self.send_timer.need_ka():', 'if self.send_timer.need_ka():')],
)
