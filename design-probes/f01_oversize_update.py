import copy
from exabgp.bgp.message.open.capability.negotiated import Negotiated
from exabgp.bgp.message.update.collection import UpdateCollection, RoutedNLRI
from exabgp.bgp.message.update.attribute import AttributeCollection
from exabgp.bgp.message.update.attribute.generic import GenericAttribute
from exabgp.bgp.message.update.attribute.origin import Origin
from exabgp.bgp.message.update.attribute.aspath import AS2Path
from exabgp.bgp.message.update.attribute.localpref import LocalPreference
from exabgp.bgp.message.update.nlri.inet import INET
from exabgp.bgp.message.update.nlri.cidr import CIDR
from exabgp.protocol.family import AFI, SAFI
from exabgp.protocol.ip import IP, IPv4
from exabgp.bgp.message.open.asn import ASN
neg = copy.copy(Negotiated.UNSET)
neg.families = [(AFI.ipv4, SAFI.unicast)]
neg.local_as = ASN(65000); neg.peer_as = ASN(65000); neg.msg_size = 4096
def upd(padlen, nlris):
    attrs = AttributeCollection()
    attrs.add(GenericAttribute.make_generic(99, 0xC0, bytes(padlen)))
    nh = IPv4.from_string('1.2.3.4') if hasattr(IPv4,'from_string') else IP.from_string('1.2.3.4')
    from exabgp.bgp.message.update.attribute.nexthop import NextHop
    attrs.add(NextHop.from_string('1.2.3.4') if hasattr(NextHop,'from_string') else NextHop(nh.pack_ip()))
    ann = [RoutedNLRI(INET.make_route(AFI.ipv4, SAFI.unicast, IP.pton(a), m), nh) for a, m in nlris]
    return UpdateCollection(ann, [], attrs)
base = upd(100, [('10.0.0.0', 8)])
m = list(base.messages(neg))[0]
overhead = len(m) - 100 - 2   # everything except padding and the /8 nlri (2 bytes)
print('overhead', overhead)
for room in range(0, 8):
    pad = 4096 - overhead - room
    u = upd(pad, [('10.0.0.0', 8), ('11.1.1.0', 24)])
    try:
        out = [len(x) for x in u.messages(neg)]
    except Exception as e:
        out = repr(e)
    print('room', room, '->', out, 'OVERSIZE' if isinstance(out, list) and any(l > 4096 for l in out) else '')
