from exabgp.bgp.message.open import Open, Version, ASN, HoldTime, RouterID
from exabgp.bgp.message.open.capability import Capabilities
from exabgp.bgp.message.open.capability.asn4 import ASN4
from exabgp.bgp.message.open.capability.capability import Capability
from exabgp.bgp.message.open.capability.negotiated import Negotiated
import copy
def mk(asn, rid):
    c = Capabilities(); c[Capability.CODE.FOUR_BYTES_ASN] = ASN4(asn)
    return Open.make_open(Version(4), ASN(asn), HoldTime(180), RouterID(rid), c)
n = copy.copy(Negotiated.UNSET)
from exabgp.bgp.message.open.capability.negotiated import RequirePath
n.addpath = RequirePath()
n.sent(mk(4200000001, '1.1.1.1')); n.received(mk(4200000002, '2.2.2.2'))
print('asn4', n.asn4, 'local_as', int(n.local_as), 'peer_as', int(n.peer_as))
