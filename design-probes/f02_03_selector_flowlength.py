from exabgp.reactor.api.command.limit import match_neighbor
name = 'neighbor 10.0.0.1 local-ip 1.1.1.1 local-as 1 peer-as 2 router-id 1.1.1.1 family-allowed in-open'
print('#2 selector [neighbor *, peer-as 65000] matches a peer whose peer-as is 2:', match_neighbor(['neighbor *', 'peer-as 65000'], name))

from exabgp.bgp.message.update.nlri.flow import Flow
from exabgp.bgp.message.update.nlri.nlri import NLRI
from exabgp.protocol.family import AFI, SAFI
from exabgp.bgp.message.action import Action
from exabgp.bgp.message.open.capability.negotiated import Negotiated
comp = bytes([5]) + b''.join(bytes([0x01, 80]) for _ in range(126)) + bytes([0x81, 80]) + bytes([6, 0x81, 80])   # 258 bytes, well formed
data = bytes([0xF0 | (len(comp) >> 8), len(comp) & 0xFF]) + comp
try:
    nlri, rest = Flow.unpack_nlri(AFI.ipv4, SAFI.flow_ip, data, Action.ANNOUNCE, False, Negotiated.UNSET)
    print('#3 decoded', nlri is not NLRI.INVALID, len(rest))
except Exception as exc:
    print('#3 a well-formed 258 byte FlowSpec NLRI is refused:', type(exc).__name__, str(exc).split('/')[-1].strip())
