import copy, struct, traceback
from exabgp.bgp.message import Message
from exabgp.bgp.message.open.capability.negotiated import Negotiated, RequirePath
from exabgp.bgp.message.update.attribute import Attribute, AttributeCollection
from exabgp.protocol.family import AFI, SAFI
from exabgp.bgp.message.open.asn import ASN
from exabgp.bgp.message.direction import Direction
def mkneg(asn4=True, fams=((AFI.ipv4,SAFI.unicast),)):
    n = copy.copy(Negotiated.UNSET); n.families=list(fams); n.local_as=ASN(65000); n.peer_as=ASN(65001); n.direction=Direction.IN; n.neighbor=None; n.asn4=asn4; n.addpath=RequirePath(); n.nexthop=[]
    return n
def upd(attrs, nlri=b'\x18\x0a\x00\x01', wd=b''):
    return struct.pack('!H',len(wd))+wd+struct.pack('!H',len(attrs))+attrs+nlri
origin = bytes([0x40,1,1,0]); nh = bytes([0x40,3,4,1,2,3,4])
# 11: merge with empty AS4_PATH
neg2 = mkneg(asn4=False)
aspath2 = bytes([0x40,2,6, 2,2, 0,1, 0,2])          # SEQ [1,2] 2-byte
as4empty = bytes([0xC0,17,0])
try:
    m = Message.unpack(2, upd(origin+aspath2+nh+as4empty), neg2)
    print('#11 merged as-path:', repr(str(m.data.attributes[2])), '(sent [1 2])')
except Exception as e: print('#11 EXC', type(e).__name__, e)
AttributeCollection.cached=None; AttributeCollection.previous=b''
# 15a: cache keyed by bytes only: 8-byte aggregator valid for asn4, invalid (discard) for asn2
agg8 = bytes([0xC0,7,8, 0,0,0xFD,0xE9, 10,0,0,1])
aspath4 = bytes([0x40,2,6, 2,1, 0,0,0,5])
aspath_amb = bytes([0x40,2,0])
body = upd(origin+aspath_amb+nh+agg8)
a = Message.unpack(2, body, mkneg(asn4=True)).data.attributes
b = Message.unpack(2, body, mkneg(asn4=False)).data.attributes
AttributeCollection.cached=None; AttributeCollection.previous=b''
c = Message.unpack(2, body, mkneg(asn4=False)).data.attributes
print('#15a asn2 session after asn4 session sees keys', sorted(b.keys()), 'fresh asn2 sees', sorted(c.keys()))
# 10: KeyError in MPRNLRI with extended nexthop and l2vpn vpls
n = mkneg(fams=((AFI.l2vpn,SAFI.vpls),)); n.nexthop=[(AFI.ipv4,SAFI.unicast,AFI.ipv6)]
mp = struct.pack('!HBB',25,65,4)+bytes([1,2,3,4])+b'\x00'+bytes(19)
mpattr = bytes([0x80,14,len(mp)])+mp
try:
    m = Message.unpack(2, upd(origin+bytes([0x40,2,0])+mpattr, nlri=b''), n); print('#10 decoded', m)
except Exception as e: print('#10 EXC', type(e).__name__, repr(e)[:80])
# 16 / 17
from exabgp.bgp.message.update.nlri.flow import Flow, packet_length
f = Flow.make_flow()
for L in (239,240,4094,4095):
    try: print('#16 len', L, '->', bytes(f._encode_length(bytes(L)))[:2].hex())
    except Exception as e: print('#16 len', L, 'EXC', type(e).__name__)
try: print('#17 packet_length(-5) =', packet_length('-5'))
except Exception as e: print('#17 refused', e)
# 18 oneline + ascii
from exabgp.reactor.api.response.text import oneline
s = oneline('café\nx'); print('#18 oneline ->', repr(s)); 
try: bytes(s+'\n','ascii'); print('   ascii ok')
except Exception as e: print('   write would raise', type(e).__name__)
# 15b klass ID
from exabgp.bgp.message.open.capability.capability import Capability
from exabgp.bgp.message.open.capability.refresh import RouteRefresh
print('#15b before', RouteRefresh().json()); Capability.klass(Capability.CODE.ROUTE_REFRESH_CISCO); print('    after decoding a cisco one, a fresh RFC RouteRefresh().json() =', RouteRefresh().json())
Capability.klass(Capability.CODE.ROUTE_REFRESH)
