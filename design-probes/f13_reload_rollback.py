import os, tempfile
from exabgp.environment import getenv
from exabgp.configuration.configuration import Configuration
conf = '''
neighbor 127.0.0.1 {
    router-id 1.2.3.4;
    local-address 127.0.0.1;
    local-as 65000;
    peer-as 65001;
    static { route 10.0.0.0/24 next-hop 1.2.3.4; }
}
'''
d = tempfile.mkdtemp(); p = os.path.join(d, 'a.conf'); open(p,'w').write(conf)
c = Configuration([p])
print('load', c.reload(), 'neighbors', len(c.neighbors))
# (a) file vanishes
os.rename(p, p+'.gone')
print('reload with missing file ->', c.reload(), 'neighbors now', len(c.neighbors))
os.rename(p+'.gone', p); print('restore', c.reload(), len(c.neighbors))
# (b) clean syntax error
open(p,'w').write(conf.replace('peer-as 65001;', 'peer-as 65001; bogus-keyword 1;'))
print('reload with syntax error ->', c.reload() is True, 'neighbors now', len(c.neighbors))
open(p,'w').write(conf); print('restore', c.reload(), len(c.neighbors))
# (c) parser exception rather than a clean error: a value that makes a parser raise something else
import exabgp.configuration.static.parser as sp
open(p,'w').write(conf.replace('next-hop 1.2.3.4;', 'next-hop 1.2.3.4 med 5;'))
orig = sp.med
def boom(tok): raise RuntimeError('parser exploded')
import exabgp.configuration.static.route as sr
for mod in (sp,):
    pass
from exabgp.configuration.static.route import ParseStaticRoute
k = [k for k in ParseStaticRoute.known if k == 'med'][0]; saved = ParseStaticRoute.known[k]; ParseStaticRoute.known[k] = boom
print('reload with parser exception ->', c.reload() is True, 'neighbors now', len(c.neighbors))
ParseStaticRoute.known[k] = saved
import shutil; shutil.rmtree(d)
