from exabgp.rib.outgoing import OutgoingRIB
from exabgp.rib.route import Route
from exabgp.bgp.message.update.nlri.inet import INET
from exabgp.bgp.message.update.attribute import AttributeCollection
from exabgp.bgp.message.update.attribute.med import MED
from exabgp.bgp.message.update.attribute.origin import Origin
from exabgp.protocol.family import AFI, SAFI
from exabgp.protocol.ip import IP
fam = {(AFI.ipv4, SAFI.unicast)}
def route(prefix, mask, med):
    a = AttributeCollection(); a.add(Origin.from_int(0)); a.add(MED.from_int(med))
    return Route(INET.make_route(AFI.ipv4, SAFI.unicast, IP.pton(prefix), mask), a, nexthop=IP.from_string('1.2.3.4'))
def peer_apply(rib, table):
    for u in rib.updates(False):
        for n in u.withdraws: table.pop(n.index(), None)
        for r in u.announces: table[r.nlri.index()] = str(u.attributes)
    return table
def intended(rib): return {r.nlri.index(): str(r.attributes) for r in rib.cached_routes()}
# 12: A/x, A/y, A/x inside one flush window
rib = OutgoingRIB(True, fam)
for med in (10, 20, 10): rib.add_to_rib(route('10.0.0.0', 24, med))
t = peer_apply(rib, {})
print('#12 peer', list(t.values()), 'intended', list(intended(rib).values()), '->', 'DIVERGED' if t != intended(rib) else 'ok')
# 14: replace_reload with attribute-only change
rib = OutgoingRIB(True, fam)
old = [route('10.0.0.0', 24, 10)]; new = [route('10.0.0.0', 24, 99)]
for r in old: rib.add_to_rib(r)
t = peer_apply(rib, {})
rib.replace_reload(old, new)
t = peer_apply(rib, t)
print('#14 peer after reload', list(t.values()), 'new config wants med 99')
