import copy, struct
exec(open(__file__.replace('f21_attribute_discard.py','f10_11_15_16_17_18_misc.py')).read().split('# 11:')[0])
from exabgp.bgp.message.update.attribute.collection import AttributeCollection
AttributeCollection.cached=None; AttributeCollection.previous=b''
aspath = bytes([0x40,2,0])
agg_bad = bytes([0xC0,7,5, 0,1,2,3,4])      # AGGREGATOR length 5: attribute-discard class
m = Message.unpack(2, upd(origin+aspath+nh+agg_bad+bytes([0x80,4,4,0,0,0,9])), mkneg())
d = m.data
print('announces', [str(r.nlri) for r in d.announces], 'attrs', sorted(d.attributes.keys()), 'DISCARD marker', Attribute.CODE.INTERNAL_DISCARD in d.attributes)
print('=> Protocol.read_message returns _NOP for it (whole UPDATE dropped): routes neither announced nor withdrawn')
