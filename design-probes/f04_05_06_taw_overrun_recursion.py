import copy, struct
from exabgp.bgp.message import Message
from exabgp.bgp.message.open.capability.negotiated import Negotiated
from exabgp.bgp.message.update.attribute import Attribute
from exabgp.protocol.family import AFI, SAFI
from exabgp.bgp.message.open.asn import ASN
from exabgp.bgp.message.direction import Direction
neg = copy.copy(Negotiated.UNSET); neg.families=[(AFI.ipv4,SAFI.unicast)]; neg.local_as=ASN(65000); neg.peer_as=ASN(65001); neg.direction=Direction.IN; neg.neighbor=None
def upd(attrs, nlri=b'\x18\x0a\x00\x01', wd=b''):
    return struct.pack('!H',len(wd))+wd+struct.pack('!H',len(attrs))+attrs+nlri
origin_bad = bytes([0x40,1,2,0,0])          # ORIGIN with length 2  -> treat-as-withdraw class
aspath = bytes([0x40,2,0]); nh = bytes([0x40,3,4,1,2,3,4])
def show(name, body):
    try:
        m = Message.unpack(2, body, neg)
        d = m.data
        print(name, 'announces', [str(r.nlri) for r in d.announces], 'withdraws', [str(n) for n in d.withdraws], 'TAW' , Attribute.CODE.INTERNAL_TREAT_AS_WITHDRAW in d.attributes, 'DISCARD', Attribute.CODE.INTERNAL_DISCARD in d.attributes, 'attrs', sorted(d.attributes.keys()))
    except Exception as e:
        print(name, 'EXC', type(e).__name__, e)
show('malformed origin', upd(origin_bad+aspath+nh))
# attribute length overrun: unknown transitive attr 0xC0/99 declared length 10 but only 3 bytes remain in the block
over = bytes([0xC0,99,10,1,2,3])
show('overrun generic  ', upd(bytes([0x40,1,1,0])+aspath+nh+over))
# MED overrun: declared 4, only 2 present
show('overrun med      ', upd(bytes([0x40,1,1,0])+aspath+nh+bytes([0x80,4,4,0,1])))
# many empty unknown optional non transitive attributes -> recursion
many = bytes([0x80,200,0])*1300
try:
    m = Message.unpack(2, upd(bytes([0x40,1,1,0])+aspath+nh+many), neg); print('many attrs ok', len(m.data.announces))
except BaseException as e: print('many attrs EXC', type(e).__name__)
