#!/usr/bin/env python3
"""Reproducers for violations of C17 ("configuration reload applies the difference, or nothing at all")
on the UNCHANGED tree.

Run:  cd <tree> && PYTHONPATH=<tree>/src /venv/bin/python _out/baseline_probe.py [O1 O5 ...]
Exit status 1 while at least one of the problems is still there, 0 when none is left.

Every check drives the real Configuration / Reactor / Peer / RIB code.  Where the peer view matters the
real Peer talks over loopback TCP to the small BGP speaker of e2e.py, which rebuilds its view from the
UPDATE messages it receives (expected view = routes of the configuration in force + API routes).
"""

from __future__ import annotations

import asyncio
import os
import shutil
import sys
import tempfile
import time
import uuid

HERE = os.path.dirname(os.path.abspath(__file__))
sys.path.insert(0, HERE)

from e2e import FakePeer, Harness, free_port, neighbor_conf  # noqa: E402

from exabgp.configuration.configuration import Configuration  # noqa: E402
from exabgp.protocol.ip import IP  # noqa: E402
from exabgp.reactor.interrupt import Signal  # noqa: E402
from exabgp.reactor.loop import Reactor  # noqa: E402
from exabgp.rib import RIB  # noqa: E402

BROKEN_TAIL = 'neighbor 127.0.0.3 {\n  bogus 1;\n}\n'  # a second neighbor with an unknown keyword

R_A = '10.0.0.0/24 next-hop 1.1.1.1'
V_A = ('10.0.0.0/24', ('1.1.1.1', ''))


def show(title: str, observed, expected) -> None:
    print(f'    {title}')
    print(f'      observed: {observed}')
    print(f'      expected: {expected}')


# ---------------------------------------------------------------------------------------------------
async def O1() -> bool:
    """a reload which FAILS still sends the new/changed routes of the neighbors parsed before the error"""
    port = free_port()
    fake = FakePeer(port)
    await fake.start()
    good = neighbor_conf(port, [R_A, '10.0.1.0/24 next-hop 1.1.1.1 med 10'])
    bad = neighbor_conf(port, [R_A, '10.0.1.0/24 next-hop 1.1.1.1 med 66', '10.0.9.0/24 next-hop 9.9.9.9']) + BROKEN_TAIL
    h = Harness([good, bad])
    assert h.reload()
    assert await h.pump_until(lambda: fake.established() and len(fake.view) == 2)
    before = dict(fake.view)
    result = h.reload()
    await h.pump(1.0)
    after = dict(fake.view)
    await h.shutdown()
    await fake.stop()
    show(f'reload() returned {result}; peer view after the failed reload', after, before)
    return result is False and after != before


# ---------------------------------------------------------------------------------------------------
async def O2() -> bool:
    """after one failed reload (error after a complete neighbor) no later reload of a correct file succeeds"""
    port = free_port()
    good = neighbor_conf(port, [R_A])
    directory = tempfile.mkdtemp(prefix='c17-', dir=HERE)
    fname = os.path.join(directory, 'exabgp.conf')

    def write(text: str) -> None:
        with open(fname, 'w') as f:
            f.write(text)

    write(good)
    RIB._cache.clear()
    configuration = Configuration([fname])
    reactor = Reactor(configuration)
    first = reactor.reload()
    write(good + BROKEN_TAIL)
    second = reactor.reload()
    write(good)
    later = [reactor.reload() for _ in range(3)]
    error = str(configuration.error).strip().replace('\n', ' | ')
    shutil.rmtree(directory, ignore_errors=True)
    show('reload results: good file, broken file, then three times the good file again', [first, second] + later, [True, False, True, True, True])
    print(f'      last error: {error}')
    return first is True and second is False and not any(later)


# ---------------------------------------------------------------------------------------------------
async def O3() -> bool:
    """routes read from a REJECTED file are announced by the next successful reload"""
    port = free_port()
    fake = FakePeer(port)
    await fake.start()
    good = neighbor_conf(port, [R_A])
    # error inside the neighbor itself, after its static section
    bad = neighbor_conf(port, [R_A, '10.6.6.0/24 next-hop 6.6.6.6']).replace('\n}\n', '\n  bogus 1;\n}\n')
    h = Harness([good, bad, good])
    assert h.reload()
    assert await h.pump_until(lambda: fake.established() and len(fake.view) == 1)
    failed = h.reload()
    await h.pump(1.0)
    view_after_failed = dict(fake.view)
    ok = h.reload()
    await h.pump(1.0)
    routes = [str(r) for r in h.peer().neighbor.routes]
    view = dict(fake.view)
    await h.shutdown()
    await fake.stop()
    show(f'reload results {failed}, {ok}; routes of the neighbor after reloading the good file', routes, [R_A])
    show('peer view after the failed reload (still fine here)', view_after_failed, dict([V_A]))
    show('peer view after the successful reload of the good file', view, dict([V_A]))
    return failed is False and ok is True and view_after_failed == dict([V_A]) and view != dict([V_A])


# ---------------------------------------------------------------------------------------------------
async def O4() -> bool:
    """a failed reload terminates the API processes declared after the error in the new file"""
    port = free_port()
    process = 'process svc {\n    run /bin/cat;\n    encoder text;\n}\n'
    api = 'api { processes [ svc ]; }'
    good = process + neighbor_conf(port, [R_A], extra=api)
    bad = neighbor_conf(port, [R_A], extra=api + '\n    hold-tme 10;') + process  # typo, process section moved below
    h = Harness([good, bad])
    reactor = h.reactor
    assert h.reload()
    reactor.processes.start(h.configuration.processes)
    child = reactor.processes._process['svc']
    assert child.poll() is None
    # exactly what Reactor._async_main_loop does when it gets SIGUSR1
    result = reactor.reload()
    reactor.processes.start(h.configuration.processes, False)
    time.sleep(1.0)
    state = child.poll()
    configured = list(h.configuration.processes)
    reactor.processes.terminate()
    show(f'reload() returned {result}; configuration.processes / exit status of the API process', (configured, state), (['svc'], None))
    return result is False and (configured != ['svc'] or state is not None)


# ---------------------------------------------------------------------------------------------------
async def O5() -> bool:
    """a failed reload changes the families of the live RIB and throws away cached (configured and API) routes"""
    port = free_port()
    fake = FakePeer(port)
    await fake.start()
    v6 = '2001:db8:1::/48 next-hop 2001:db8::1'
    good = neighbor_conf(port, [R_A, v6], fam='ipv4 unicast; ipv6 unicast;')
    bad = neighbor_conf(port, [R_A], fam='ipv4 unicast;') + BROKEN_TAIL
    h = Harness([good, bad])
    assert h.reload()
    assert await h.pump_until(lambda: fake.established() and len(fake.view) == 2)
    h.api_announce('route 2001:db8:99::/48 next-hop 2001:db8::1')
    assert await h.pump_until(lambda: len(fake.view) == 3)
    before = dict(fake.view)
    result = h.reload()
    neighbor = h.peer().neighbor
    families = (neighbor.families(), sorted(neighbor.rib.outgoing.families))
    fake.drop()  # the session flaps: everything which is configured/announced must come back
    await h.pump_until(lambda: len(fake.sessions) >= 2 and fake.established(), 20)
    await h.pump_until(lambda: fake.view == before, 3)
    after = dict(fake.view)
    await h.shutdown()
    await fake.stop()
    print(f'    reload() returned {result}; (neighbor families, families of its outgoing RIB) = {families}')
    show('peer view after a session flap following the failed reload', after, before)
    return result is False and after != before


# ---------------------------------------------------------------------------------------------------
async def O6() -> bool:
    """two reloads without the peer loop running in between: the route removed by the first is never withdrawn"""
    port = free_port()
    fake = FakePeer(port)
    await fake.start()
    old = neighbor_conf(port, [R_A, '10.0.1.0/24 next-hop 1.1.1.1'])
    new = neighbor_conf(port, [R_A])
    h = Harness([old, new, new])
    assert h.reload()
    assert await h.pump_until(lambda: fake.established() and len(fake.view) == 2)
    results = (h.reload(), h.reload())  # e.g. SIGUSR1 twice: the main loop does not await between two reloads
    await h.pump(1.5)
    view = dict(fake.view)
    await h.shutdown()
    await fake.stop()
    show(f'reload results {results}; peer view', view, dict([V_A]))
    return results == (True, True) and view != dict([V_A])


# ---------------------------------------------------------------------------------------------------
async def O7() -> bool:
    """peer which has not connected yet (RIB never drained): reloads A->B->A leave B's attributes, A->B->(removed) announces the removed route"""
    bad = False
    a = '10.0.1.0/24 next-hop 1.1.1.1 med 10'
    b = '10.0.1.0/24 next-hop 1.1.1.1 med 20'
    for name, last, expected in (
        ('A -> B -> A', [a], {'10.0.1.0/24': ('1.1.1.1', 'med 10')}),
        ('A -> B -> route removed', [], {}),
    ):
        port = free_port()
        fake = FakePeer(port)
        h = Harness([neighbor_conf(port, [a]), neighbor_conf(port, [b]), neighbor_conf(port, last)])
        results = [h.reload(), h.reload(), h.reload()]  # the remote is not reachable yet / the peer never ran
        await fake.start()
        await h.pump_until(lambda: fake.established(), 10)
        await h.pump(1.0)
        view = dict(fake.view)
        log = list(fake.log)
        await h.shutdown()
        await fake.stop()
        show(f'{name}: reloads {results}, messages {log}; peer view', view, expected)
        bad = bad or view != expected
    return bad


# ---------------------------------------------------------------------------------------------------
async def O8() -> bool:
    """watchdog routes removed from the configuration stay in the watchdog table: the API announces them again"""
    port = free_port()
    fake = FakePeer(port)
    await fake.start()
    old = neighbor_conf(port, [R_A, '10.0.5.0/24 next-hop 1.1.1.1 watchdog dog', '10.0.6.0/24 next-hop 1.1.1.1 watchdog cat withdraw'])
    new = neighbor_conf(port, [R_A])
    h = Harness([old, new])
    assert h.reload()
    assert await h.pump_until(lambda: fake.established() and len(fake.view) == 2)
    assert h.reload()
    await h.pump_until(lambda: len(fake.view) == 1, 3)
    after_reload = dict(fake.view)
    rib = h.peer().neighbor.rib.outgoing
    # what the API commands "announce watchdog cat", "withdraw watchdog dog", "announce watchdog dog" do
    rib.announce_watchdog('cat')
    rib.withdraw_watchdog('dog')
    await h.pump(0.5)
    rib.announce_watchdog('dog')
    await h.pump(1.0)
    view = dict(fake.view)
    await h.shutdown()
    await fake.stop()
    show('peer view right after the reload', after_reload, dict([V_A]))
    show('peer view after the API used the watchdogs of the removed routes', view, dict([V_A]))
    return view != dict([V_A])


# ---------------------------------------------------------------------------------------------------
async def O9() -> bool:
    """a neighbor removed by one reload and put back by the next one (remote down meanwhile) never gets a peer again"""
    port = free_port()
    fake = FakePeer(port)
    other = neighbor_conf(free_port(), [R_A]).replace('neighbor 127.0.0.1', 'neighbor 127.0.0.9')
    mine = neighbor_conf(port, [R_A])
    h = Harness([other + mine, other, other + mine])
    assert h.reload()
    await h.pump(1.0)
    key = [k for k in h.reactor._peers if 'neighbor 127.0.0.1 ' in k][0]
    assert h.reload()  # neighbor removed
    await h.pump(2.0)
    assert h.reload()  # neighbor back
    await h.pump(2.0)
    await fake.start()  # the remote comes up
    await h.pump_until(lambda: fake.established() and len(fake.view) == 1, 12)
    configured = key in h.configuration.neighbors
    registered = key in h.reactor._peers
    view = dict(fake.view)
    await h.shutdown()
    await fake.stop()
    show('(neighbor in configuration, peer registered in the reactor, peer view)', (configured, registered, view), (True, True, dict([V_A])))
    return configured and (not registered or view != dict([V_A]))


# ---------------------------------------------------------------------------------------------------
class ActivePeer(FakePeer):
    async def connect(self, port: int, local: str) -> None:
        reader, writer = await asyncio.open_connection('127.0.0.1', port, local_addr=(local, 0))
        self.task = asyncio.ensure_future(self._handle(reader, writer))


async def O10() -> bool:
    """reloading an UNCHANGED file tears down the sessions accepted on a neighbor range"""
    port = free_port()
    conf = f"""neighbor 127.0.0.0/24 {{
    router-id 10.0.0.2;
    local-address 127.0.0.1;
    local-as 65500;
    peer-as 65501;
    passive true;
    family {{ ipv4 unicast; }}
    static {{
        route {R_A};
    }}
}}
"""
    h = Harness([conf, conf])
    reactor = h.reactor
    assert h.reload()
    assert reactor.listener.listen_on(IP.from_string('127.0.0.1'), None, port, None, False, None)

    async def pump(seconds: float) -> None:
        loop = asyncio.get_running_loop()
        end = loop.time() + seconds
        while loop.time() < end:
            if reactor.listener.incoming():  # as in Reactor._async_main_loop
                reactor.asynchronous.schedule(str(uuid.uuid1()), 'new connection', reactor.listener.new_connections())
            await h.pump(0.05)

    fake = ActivePeer(0)
    await fake.connect(port, '127.0.0.5')
    await pump(2.0)
    up_before = fake.established()
    view_before = dict(fake.view)
    result = h.reload()
    await pump(2.0)
    up_after = fake.established()
    reactor.listener.stop()
    await h.shutdown()
    show(f'reload() of the same file returned {result}; session up before/after', (up_before, up_after), (True, True))
    print(f'      view before the reload: {view_before}')
    return up_before and not up_after


# ---------------------------------------------------------------------------------------------------
async def O11() -> bool:
    """a reload request which arrives while a peer has pending updates is silently dropped by the main loop"""
    port = free_port()
    fake = FakePeer(port)
    await fake.start()
    old = neighbor_conf(port, [R_A])
    new = neighbor_conf(port, [R_A, '10.0.2.0/24 next-hop 2.2.2.2'])
    h = Harness([old, new])
    assert h.reload()
    reactor = h.reactor
    main_loop = asyncio.ensure_future(reactor._async_main_loop())
    for _ in range(200):
        await asyncio.sleep(0.05)
        if fake.established() and len(fake.view) == 1:
            break
    # API: "announce route ..." directly followed by "reload" (reactor.api.command.reactor.reload sets the flag)
    h.api_announce('route 10.9.9.0/24 next-hop 1.1.1.1')
    reactor.signal.received = Signal.RELOAD
    await asyncio.sleep(2.0)
    view = dict(fake.view)
    routes = [str(r) for r in h.peer().neighbor.routes]
    flag = reactor.signal.received
    reactor.signal.received = Signal.SHUTDOWN
    await asyncio.sleep(0.5)
    main_loop.cancel()
    await fake.stop()
    expected = {'10.0.0.0/24': ('1.1.1.1', ''), '10.0.2.0/24': ('2.2.2.2', ''), '10.9.9.0/24': ('1.1.1.1', '')}
    show(f'signal flag afterwards {flag} (0 = consumed); configured routes {routes}; peer view', view, expected)
    return flag == Signal.NONE and view != expected


CHECKS = [O1, O2, O3, O4, O5, O6, O7, O8, O9, O10, O11]


def main() -> int:
    wanted = set(sys.argv[1:])
    found = []
    for check in CHECKS:
        if wanted and check.__name__ not in wanted:
            continue
        print(f'{check.__name__}: {check.__doc__}')
        try:
            violated = asyncio.run(check())
        except Exception as exc:  # a probe which cannot run is reported, not counted
            print(f'    probe could not run: {type(exc).__name__}: {exc}')
            violated = False
        print(f'    => {"VIOLATION REPRODUCED" if violated else "not reproduced"}\n')
        if violated:
            found.append(check.__name__)
    print('reproduced:', ' '.join(found) if found else 'none')
    return 1 if found else 0


if __name__ == '__main__':
    sys.exit(main())
