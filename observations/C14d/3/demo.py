"""C14 seeded change 3: the replies a slow helper reads are the replies ExaBGP queued, in order.

The helper has stopped reading for a while, so the pipe to its stdin is almost full when it sends
three commands; one reply (the JSON of `help json`) is longer than what is left in the pipe.  Once
the helper reads again, the bytes it gets have to be exactly those a fast helper gets.
"""
import asyncio
import os
import sys

sys.path.insert(0, os.path.join(os.path.dirname(os.path.abspath(__file__)), '..'))
from harness import Rig  # noqa: E402

COMMANDS = [b'version\n', b'help json\n', b'announce route 10.1.0.0/24 next-hop 1.2.3.4\n', b'bogus\n', b'version\n']
FILL = b'#' * 63 + b'\n'


def fast() -> bytes:
    rig = Rig(api_version=4)
    rig.feed([b''.join(COMMANDS)])
    out = '\n'.join(rig.helper_reads()) + '\n'
    rig.close()
    return out.encode()


def slow(room: int) -> bytes:
    rig = Rig(api_version=4)
    stdin_fd = rig.processes._process['helper'].stdin.fileno()
    helper_fd = rig.pipes['helper'][1]
    # events ExaBGP sent earlier and the helper has not read yet: the pipe is full
    filled = 0
    while True:
        try:
            filled += os.write(stdin_fd, FILL)
        except BlockingIOError:
            break
    # the helper reads a little: `room` bytes are free again
    got = b''
    while len(got) < room:
        got += os.read(helper_fd, room - len(got))

    async def go() -> bytes:
        received = got
        rig.processes._async_mode = True
        rig.helper_writes(b''.join(COMMANDS))
        rig.processes._async_reader_callback('helper')
        for turn in range(300):
            await rig._turn()
            if turn < 20:
                continue  # the helper is still busy with something else
            # the helper wakes up and reads what is there, a page at a time
            try:
                received += os.read(helper_fd, 4096)
            except BlockingIOError:
                pass
        return received

    received = asyncio.run(go())
    rig.close()
    assert received.startswith(FILL * (filled // len(FILL)))
    return received[filled:]


def main() -> int:
    expected = fast()
    print(f'fast helper: {len(expected)} bytes, lines {[len(x) for x in expected.splitlines()]}')
    failures = 0
    for room in (4096, 8192, 3 * 4096):
        got = slow(room)
        same = got == expected
        print(f'slow helper with {room} bytes of room: {len(got)} bytes, lines {[len(x) for x in got.splitlines()]}'
              f' -> {"identical" if same else "DIFFERENT"}')
        if not same:
            failures += 1
            for i, (a, b) in enumerate(zip(expected.splitlines(), got.splitlines())):
                if a != b:
                    print(f'   first differing line {i}: expected {a[:60]!r}..., got {b[:60]!r}...')
                    break
    if failures:
        print('FAIL: the reply stream depends on how fast the helper reads')
        return 1
    print('OK: the slow helper reads the same replies in the same order')
    return 0


if __name__ == '__main__':
    sys.exit(main())
