"""C14 baseline probe: histories for which the UNCHANGED tree already breaks the property.

Run:  cd <tree> && PYTHONPATH=<tree>/src /venv/bin/python _out/baseline_probe.py
Exit status 1 while at least one of the problems is still there, 0 when none is.

Everything here goes through the production objects (Reactor, Configuration, Processes over real
pipes, ASYNC, API, the dispatchers and the command handlers); see harness.py for the one stand-in
(the helper process) and each probe for anything else it fakes.
"""
from __future__ import annotations

import asyncio
import os
import sys
import tempfile
import time

sys.path.insert(0, os.path.dirname(os.path.abspath(__file__)))
from harness import CONF, Rig, terminals  # noqa: E402

WATCHDOG = ' static { route 192.0.2.0/24 next-hop 10.0.0.254 watchdog dog withdraw; }\n'


def conf_with_watchdog() -> str:
    # the withdrawn watchdog route is configured on 10.0.0.1 and on 10.0.0.21
    conf = CONF.replace('api { processes [ helper, other ]; }\n}', 'api { processes [ helper, other ]; }\n' + WATCHDOG + '}', 1)
    return conf.replace('api { processes [ helper ]; }\n}', 'api { processes [ helper ]; }\n' + WATCHDOG + '}', 1)


def changed(before: dict, after: dict) -> list[str]:
    return sorted(k for k in after if after[k] != before.get(k))


PROBES = []


def probe(function):
    PROBES.append(function)
    return function


# --------------------------------------------------------------------------------------------
@probe
def watchdog_ignores_the_selector():
    """`neighbor 10.0.0.1 announce watchdog dog` changes 10.0.0.1 only"""
    rig = Rig(conf=conf_with_watchdog())
    before = rig.ribs()
    replies = rig.run_lines(['neighbor 10.0.0.1 announce watchdog dog'])
    got = changed(before, rig.ribs())
    rig.close()
    return got == ['10.0.0.1'], f'replies {replies}, neighbors changed {got}, expected [10.0.0.1]'


@probe
def watchdog_ignores_the_process_binding():
    """process `other` serves 10.0.0.1 and 10.0.0.2 only: its `announce watchdog dog` leaves 10.0.0.21 alone"""
    rig = Rig(conf=conf_with_watchdog())
    before = rig.ribs()
    replies = rig.run_lines(['announce watchdog dog'], service='other')
    got = changed(before, rig.ribs())
    rig.close()
    return '10.0.0.21' not in got, f'replies {replies}, neighbors changed {got}, 10.0.0.21 has no api for `other`'


@probe
def rib_clear_with_a_bad_direction_withdraws_everything():
    """`rib clear sideways` / `rib clear` do not parse: no RIB may change"""
    notes = []
    ok = True
    for version, seed in ((4, 'announce route 10.1.0.0/24 next-hop 1.2.3.4'), (6, 'peer * announce route 10.1.0.0/24 next-hop 1.2.3.4')):
        for command in ('rib clear sideways', 'rib clear'):
            rig = Rig(api_version=version)
            rig.run_lines([seed])
            before = rig.ribs()
            replies = rig.run_lines([command])
            got = changed(before, rig.ribs())
            rig.close()
            notes.append(f'v{version} `{command}` -> {terminals(replies)}, changed {got}')
            ok = ok and not got
    return ok, '; '.join(notes)


@probe
def routes_commands_never_send_a_terminal_reply():
    """peer <sel> routes add|list|remove: every command gets exactly one done/error"""
    rig = Rig(api_version=6)
    commands = [
        'peer 10.0.0.1 routes add route 10.1.0.0/24 next-hop 1.2.3.4',
        'peer 10.0.0.1 routes list',
        'peer 10.0.0.1 routes remove route 10.1.0.0/24',
        'peer 10.0.0.1 routes remove index 00',
    ]
    counts = []
    for command in commands:
        replies = rig.run_lines([command])
        counts.append(len(terminals(replies)))
    rig.close()
    return counts == [1] * len(commands), f'terminal replies per command {counts}, expected {[1] * len(commands)}'


class FakeProto:
    """An established session as far as the API can tell; the real Peer._send_route_updates drives it."""

    def __init__(self, neighbor):
        self.neighbor = neighbor
        self.connection = True

    async def new_update_generator(self, include_withdraw):
        for _ in self.neighbor.rib.outgoing.updates(self.neighbor.group_updates):
            yield


@probe
def sync_mode_waits_for_a_flush_which_never_comes():
    """every command is answered, also a `sync` one which adds nothing to the Adj-RIB-Out of an established peer"""
    async def scenario(lines):
        rig = Rig()
        rig.processes._async_mode = True
        tasks = []

        async def peer_loop(peer):
            new_routes, include_withdraw = None, True
            while True:
                new_routes, include_withdraw = await peer._send_route_updates(new_routes, include_withdraw, 25)
                await asyncio.sleep(0.001)

        for peer in rig.reactor._peers.values():
            peer.proto = FakeProto(peer.neighbor)
            tasks.append(asyncio.ensure_future(peer_loop(peer)))
        result = []
        for line in lines:
            rig.helper_writes(line.encode() + b'\n')
            rig.processes._async_reader_callback('helper')
            try:
                await asyncio.wait_for(rig._turn(), 2.0)
                await rig._turn()
                result.append(terminals(rig.helper_reads()))
            except asyncio.TimeoutError:
                result.append('NEVER ANSWERED (the main loop turn did not return within 2s)')
                break
        for task in tasks:
            task.cancel()
        rig.close()
        return result

    one = asyncio.run(scenario(['announce route 10.1.0.0/24 next-hop 1.2.3.4 sync', 'announce route 10.1.0.0/24 next-hop 1.2.3.4 sync', 'version']))
    two = asyncio.run(scenario(['neighbor 10.0.0.21 announce route 2001:db8:1::/48 next-hop 2001:db8::9 sync', 'version']))
    ok = one == [['done'], ['done'], ['done']] and two[-1] == ['done']
    return ok, f'same route twice: {one}; ipv6 route to an ipv4-only neighbor: {two}'


@probe
def commands_in_a_group_are_acknowledged_and_dropped():
    """a command answered done between `group start` and `group end` is executed (same effect as on its own)"""
    rig = Rig(api_version=6, conf=conf_with_watchdog())
    before = rig.ribs()
    replies = rig.run_lines(['group start', 'announce watchdog dog', 'group end'])
    got = changed(before, rig.ribs())
    rig.close()
    rig = Rig(api_version=6, conf=conf_with_watchdog())
    before = rig.ribs()
    rig.run_lines(['peer * announce watchdog dog'])
    alone = changed(before, rig.ribs())
    rig.close()
    return got == alone, f'in a group: terminals {terminals(replies)}, changed {got}; on its own: changed {alone}'


@probe
def a_respawned_helper_gets_the_replies_of_its_previous_life():
    """helper writes 3 commands and exits; respawned, it sends nothing: it must be told nothing"""
    tmp = tempfile.mkdtemp()
    script = os.path.join(tmp, 'helper.sh')
    with open(script, 'w') as handle:
        handle.write(
            '#!/bin/sh\n'
            f'if [ ! -e {tmp}/ran ]; then\n'
            f'  touch {tmp}/ran\n'
            "  printf 'announce route 10.1.0.0/24 next-hop 1.2.3.4\\nannounce route 10.2.0.0/24 next-hop 1.2.3.4\\nbogus\\n'\n"
            '  exit 0\n'
            'fi\n'
            f'while read line; do echo "$line" >> {tmp}/second; done\n'
        )
    os.chmod(script, 0o755)
    conf = CONF.replace('run /bin/true;\n    encoder %(encoder)s;', f'run {script};\n    encoder %(encoder)s;', 1)
    rig = Rig(conf=conf, services=())
    rig.processes.start({'helper': rig.configuration.processes['helper']})
    time.sleep(0.5)

    async def go():
        rig.processes._async_mode = True
        rig.processes._async_reader_callback('helper')  # reads the three lines, sees the exit, respawns
        for _ in range(10):
            await rig._turn()

    asyncio.run(go())
    time.sleep(0.5)
    received = open(f'{tmp}/second').read().split() if os.path.exists(f'{tmp}/second') else []
    rig.processes.silence = True
    rig.processes.terminate()
    return received == [], f'the second instance sent no command and read {received}'


@probe
def api_version_set_by_one_process_changes_the_syntax_of_the_others():
    """`api version 6` sent by `helper`: `other` keeps being understood"""
    rig = Rig(api_version=4)
    first = rig.run_lines(['announce route 10.1.0.0/24 next-hop 1.2.3.4'], service='other')
    rig.run_lines(['api version 6'], service='helper')
    second = rig.run_lines(['announce route 10.2.0.0/24 next-hop 1.2.3.4'], service='other')
    rig.close()
    return terminals(first) == terminals(second), f'`other` before: {terminals(first)}, after helper said `api version 6`: {terminals(second)}'


@probe
def a_flow_command_which_is_cut_short_is_accepted():
    """a one-line command with nothing after `flow route`, unbalanced braces or junk after `; }` is refused and changes no RIB"""
    notes = []
    ok = True
    for command in (
        'announce flow route',
        'announce flow route { match { source 10.0.0.1/32',
        'announce flow route { match { source 10.0.0.1/32 ; } then { discard zzz ; } } } } }',
        'announce route 10.1.0.0/24 next-hop 1.2.3.4 ; } anything at all',
    ):
        rig = Rig()
        before = rig.ribs()
        replies = rig.run_lines([command])
        after = rig.ribs()
        got = changed(before, after)
        new = sorted({r for k in got for r in after[k]['new']})
        rig.close()
        notes.append(f'`{command}` -> {terminals(replies)}, installed {new} on {got}')
        ok = ok and not got
    return ok, '; '.join(notes)


@probe
def a_byte_which_is_not_ascii_makes_the_outcome_depend_on_the_reads():
    """the same bytes in one read or two: same commands executed"""
    stream = b'announce route 10.1.0.0/24 next-hop 1.2.3.4\n\xff\n'
    seen = []
    for chunks in ([stream], [stream[:44], stream[44:]]):
        rig = Rig()
        rig.processes._handle_problem = lambda name: None  # the real one would try to respawn /bin/true
        rig.feed(chunks)
        seen.append([c for _, c in rig.executed])
        rig.close()
    return seen[0] == seen[1], f'one read executed {seen[0]}, two reads executed {seen[1]}'


@probe
def the_size_cap_depends_on_where_the_reads_fall():
    """a line of MAX_COMMAND_SIZE+10 bytes has one outcome, whatever the segmentation"""
    from exabgp.reactor.api.processes import Processes

    line = b'#' + b'x' * (Processes.MAX_COMMAND_SIZE + 9) + b'\n'
    outcomes = []
    for last in (len(line) % 16384 or 16384, 5):
        rig = Rig()
        problems = []
        rig.processes._handle_problem = lambda name: problems.append(name)
        # every read but the last two is a full 16384 bytes; `last` is what the final read holds
        pieces = []
        body = line[:-last]
        pieces = [body[i:i + 16384] for i in range(0, len(body), 16384)] + [line[-last:]]
        for piece in pieces:
            rig.helper_writes(piece)
            rig.processes._async_reader_callback('helper')
        outcomes.append('killed' if problems else f'queued {len(rig.processes._command_queue)} command')
        rig.close()
    return outcomes[0] == outcomes[1], f'newline arriving with the byte which crosses the cap: {outcomes[0]}; 5 bytes later: {outcomes[1]}'


@probe
def crash_is_answered_twice():
    """`crash` gets one terminal reply"""
    rig = Rig()
    replies = rig.run_lines(['crash'])
    rig.close()
    return len(terminals(replies)) == 1, f'`crash` -> {replies}'


def main() -> int:
    failed = 0
    for function in PROBES:
        try:
            ok, observed = function()
        except Exception as exc:  # a probe which cannot run is not a finding
            import traceback

            traceback.print_exc()
            ok, observed = True, f'PROBE ERROR {exc!r}'
        print(f'[{"ok" if ok else "VIOLATION"}] {function.__name__}')
        if function.__doc__:
            print(f'      expected: {function.__doc__.strip()}')
        print(f'      observed: {observed}')
        failed += 0 if ok else 1
    print(f'{failed} of {len(PROBES)} probes show a violation')
    return 1 if failed else 0


if __name__ == '__main__':
    sys.exit(main())
