"""A real Reactor + Configuration + Processes (over real pipes) + ASYNC + API, without sockets.

Everything the API path touches is the production object.  The only stand-in is the helper
process itself: a Mock with a real pipe for its stdout (what the helper writes, ExaBGP reads)
and a real pipe for its stdin (what ExaBGP answers).
"""
from __future__ import annotations

import asyncio
import os
import fcntl
from unittest.mock import Mock

from exabgp.environment import getenv
from exabgp.configuration.configuration import Configuration
from exabgp.reactor.loop import Reactor
from exabgp.reactor.peer import Peer
from exabgp.reactor.api.processes import Processes
from exabgp.reactor.api.command import group as group_cmd
from exabgp.rib import RIB

CONF = """
process helper {
    run /bin/true;
    encoder %(encoder)s;
}
process other {
    run /bin/true;
    encoder text;
}
neighbor 10.0.0.1 {
    router-id 1.1.1.1;
    local-address 10.0.0.254;
    local-as 65000;
    peer-as 65001;
    family { ipv4 unicast; ipv6 unicast; ipv4 flow; }
    api { processes [ helper, other ]; }
}
neighbor 10.0.0.2 {
    router-id 1.1.1.1;
    local-address 10.0.0.254;
    local-as 65000;
    peer-as 65002;
    family { ipv4 unicast; ipv6 unicast; ipv4 flow; }
    api { processes [ helper, other ]; }
}
neighbor 10.0.0.21 {
    router-id 2.2.2.2;
    local-address 10.0.0.254;
    local-as 65000;
    peer-as 65002;
    family { ipv4 unicast; }
    api { processes [ helper ]; }
}
neighbor 2001:db8::1 {
    router-id 3.3.3.3;
    local-address 2001:db8::254;
    local-as 65000;
    peer-as 65003;
    family { ipv4 unicast; ipv6 unicast; }
    api { processes [ helper ]; }
}
"""


def _nonblock(fd: int) -> None:
    fl = fcntl.fcntl(fd, fcntl.F_GETFL)
    fcntl.fcntl(fd, fcntl.F_SETFL, fl | os.O_NONBLOCK)


class Rig:
    def __init__(self, encoder: str = 'text', api_version: int = 4, ack: bool = True, conf: str | None = None, services=('helper', 'other')) -> None:
        getenv().api.version = api_version
        getenv().api.ack = ack
        group_cmd._GROUP_BUFFERS.clear()
        group_cmd._GROUP_BYTES.clear()
        RIB._cache.clear()
        text = (conf or CONF) % {'encoder': encoder}
        self.configuration = Configuration([text], text=True)
        ok = self.configuration.reload()
        assert ok, self.configuration.error
        self.reactor = Reactor(self.configuration)
        self.processes = Processes()
        self.reactor.processes = self.processes
        self.reactor.asynchronous.set_error_handler(self.processes.answer_error_sync)
        for key, neighbor in self.configuration.neighbors.items():
            self.reactor._peers[key] = Peer(neighbor, self.reactor)
        self.pipes = {}
        for service in services:
            out_r, out_w = os.pipe()   # helper stdout: helper writes out_w, exabgp reads out_r
            in_r, in_w = os.pipe()     # helper stdin: exabgp writes in_w, helper reads in_r
            for fd in (out_r, in_w, in_r):
                _nonblock(fd)
            proc = Mock()
            proc.poll = Mock(return_value=None)
            proc.stdout = os.fdopen(out_r, 'rb', 0)
            proc.stdin = os.fdopen(in_w, 'wb', 0)
            self.processes._process[service] = proc
            self.processes._ack[service] = ack
            self.processes._ackjson[service] = encoder == 'json' if service == 'helper' else False
            self.processes._sync[service] = False
            self.pipes[service] = (out_w, in_r)
        self.executed = []

    # ---- the helper side
    def helper_writes(self, data: bytes, service: str = 'helper') -> None:
        os.write(self.pipes[service][0], data)

    def helper_reads(self, service: str = 'helper') -> list[str]:
        chunks = []
        while True:
            try:
                d = os.read(self.pipes[service][1], 65536)
            except BlockingIOError:
                break
            if not d:
                break
            chunks.append(d)
        return b''.join(chunks).decode().splitlines()

    # ---- the exabgp side: one turn of the part of the main loop which handles the API
    async def _turn(self) -> None:
        r = self.reactor
        for service, command in self.processes.received_async():
            self.executed.append((service, command))
            r.api.process(r, service, command)
        if r.asynchronous._async:
            await r.asynchronous._run_async()
        await self.processes.flush_write_queue()

    def feed(self, chunks: list[bytes], service: str = 'helper', turns_between: int = 1) -> None:
        """Deliver the chunks one read at a time; run loop turns between reads and until idle."""
        async def go() -> None:
            self.processes._async_mode = True
            self.processes._loop = None
            for chunk in chunks:
                self.helper_writes(chunk, service)
                self.processes._async_reader_callback(service)
                for _ in range(turns_between):
                    await self._turn()
            guard = 0
            while self.processes._command_queue or r_async():
                await self._turn()
                guard += 1
                assert guard < 10000
            for _ in range(3):
                await self._turn()
            guard = 0
            while any(self.processes._write_queue.get(s) for s in list(self.processes._write_queue)) and guard < 1000:
                await self._turn()
                guard += 1

        def r_async() -> bool:
            return bool(self.reactor.asynchronous._async)

        asyncio.run(go())

    def run_lines(self, lines: list[str], service: str = 'helper') -> list[str]:
        self.feed([('\n'.join(lines) + '\n').encode()], service)
        return self.helper_reads(service)

    # ---- observation
    def ribs(self) -> dict[str, dict]:
        """Everything an API command can change on a neighbor, keyed by the neighbor address."""
        out = {}
        for key, neighbor in self.configuration.neighbors.items():
            rib = neighbor.rib.outgoing
            name = key.split()[1]
            out[name] = {
                'cached': sorted(str(r) for r in rib.cached_routes()),
                'new': sorted(str(r) for r in rib._new_nlri.values()),
                'withdraws': len(rib._pending_withdraws),
                'watchdog': {
                    dog: {sign: sorted(str(r) for r in routes.values()) for sign, routes in table.items()}
                    for dog, table in rib._watchdog.items()
                },
                'eor': [str(f) for f in neighbor.eor],
                'refresh': len(neighbor.refresh),
                'messages': len(neighbor.messages),
            }
        return out

    def close(self) -> None:
        for service, (out_w, in_r) in self.pipes.items():
            for fd in (out_w, in_r):
                try:
                    os.close(fd)
                except OSError:
                    pass
            proc = self.processes._process[service]
            proc.stdout.close()
            proc.stdin.close()


TERMINAL = {'done', 'error', '{ "answer": "done", "message": "command completed" }',
            '{ "answer": "error", "message": "this command does not support json output" }'}


def terminals(lines: list[str]) -> list[str]:
    return [l for l in lines if l in TERMINAL]
