"""C14 seeded change 1: the same bytes, delivered in two reads which meet after a space.

The stream of commands is fixed; only where the pipe cuts it changes.  Every chunking has to give
the same (service, command) sequence, the same replies and the same RIBs as the single read.
"""
import os
import sys

sys.path.insert(0, os.path.join(os.path.dirname(os.path.abspath(__file__)), '..'))
from harness import Rig, terminals  # noqa: E402

STREAM = (
    b'announce route 10.1.0.0/24 next-hop 1.2.3.4\n'
    b'neighbor 10.0.0.1 announce route 10.2.0.0/24 next-hop 1.2.3.4 community [ 65000:1 65000:2 ]\n'
    b'withdraw route 10.1.0.0/24\n'
)


def run(chunks):
    rig = Rig()
    rig.feed(chunks)
    out = (rig.executed, rig.helper_reads(), rig.ribs())
    rig.close()
    return out


def main() -> int:
    reference = run([STREAM])
    print('one read       : commands', [c for _, c in reference[0]])
    print('                 replies ', reference[1])
    bad = 0
    for cut in range(1, len(STREAM)):
        got = run([STREAM[:cut], STREAM[cut:]])
        if got != reference:
            bad += 1
            print(f'cut at byte {cut} ({STREAM[:cut][-12:]!r} | {STREAM[cut:][:12]!r})')
            print('                 commands', [c for _, c in got[0]])
            print('                 replies ', got[1])
    if bad:
        print(f'FAIL: {bad} of {len(STREAM) - 1} two-read deliveries differ from the single read')
        return 1
    print(f'OK: all {len(STREAM) - 1} two-read deliveries give the commands, replies and RIBs of the single read')
    return 0


if __name__ == '__main__':
    sys.exit(main())
