"""C14 seeded change 2: a neighbor selector reaches a neighbor it does not name.

Two IPv6 neighbors whose addresses differ only by a trailing group (2001:db8::1 and 2001:db8::1:5),
and two multi-session neighbors whose family lists start alike.  A command which selects one of
them must leave every other Adj-RIB-Out untouched, in the v4 and in the v6 syntax.
"""
import os
import sys

sys.path.insert(0, os.path.join(os.path.dirname(os.path.abspath(__file__)), '..'))
from harness import Rig  # noqa: E402

CONF = """
process helper {
    run /bin/true;
    encoder %(encoder)s;
}
neighbor 2001:db8::1 {
    router-id 1.1.1.1;
    local-address 2001:db8::254;
    local-as 65000;
    peer-as 65001;
    family { ipv4 unicast; ipv6 unicast; }
    api { processes [ helper ]; }
}
neighbor 2001:db8::1:5 {
    router-id 1.1.1.1;
    local-address 2001:db8::254;
    local-as 65000;
    peer-as 65001;
    family { ipv4 unicast; ipv6 unicast; }
    api { processes [ helper ]; }
}
neighbor 10.0.0.1 {
    router-id 1.1.1.1;
    local-address 10.0.0.254;
    local-as 65000;
    peer-as 65001;
    capability { multi-session enable; }
    family { ipv4 unicast; }
    api { processes [ helper ]; }
}
neighbor 10.0.0.2 {
    router-id 1.1.1.1;
    local-address 10.0.0.254;
    local-as 65000;
    peer-as 65001;
    capability { multi-session enable; }
    family { ipv4 unicast; ipv6 unicast; }
    api { processes [ helper ]; }
}
"""

CASES = [
    # api version, command, the only neighbors allowed to change
    (4, 'neighbor 2001:db8::1 announce route 10.1.0.0/24 next-hop 1.2.3.4', {'2001:db8::1'}),
    (6, 'peer 2001:db8::1 announce route 10.1.0.0/24 next-hop 1.2.3.4', {'2001:db8::1'}),
    (6, 'peer [2001:db8::1] announce route 10.1.0.0/24 next-hop 1.2.3.4', {'2001:db8::1'}),
    (4, 'neighbor 2001:db8::1:5 announce route 10.1.0.0/24 next-hop 1.2.3.4', {'2001:db8::1:5'}),
    (4, 'neighbor * family-allowed ipv4-unicast announce route 10.1.0.0/24 next-hop 1.2.3.4', {'10.0.0.1'}),
    (4, 'neighbor * family-allowed ipv4-unicast/ipv6-unicast announce route 10.1.0.0/24 next-hop 1.2.3.4', {'10.0.0.2'}),
    (4, 'neighbor 10.0.0.1 announce route 10.1.0.0/24 next-hop 1.2.3.4', {'10.0.0.1'}),
]


def main() -> int:
    failures = 0
    for version, command, allowed in CASES:
        rig = Rig(api_version=version, conf=CONF, services=('helper',))
        before = rig.ribs()
        replies = rig.run_lines([command])
        after = rig.ribs()
        rig.close()
        changed = {name for name in after if after[name] != before[name]}
        verdict = 'ok  ' if changed == allowed else 'FAIL'
        if changed != allowed:
            failures += 1
        print(f'{verdict} v{version} {command}')
        print(f'       replies {replies}; changed {sorted(changed)}; expected {sorted(allowed)}')
    if failures:
        print(f'FAIL: {failures} command(s) changed a neighbor the selector does not match (or missed the one it names)')
        return 1
    print('OK: every selector changed exactly the neighbors matching all of its terms')
    return 0


if __name__ == '__main__':
    sys.exit(main())
