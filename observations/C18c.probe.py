#!/usr/bin/env python3
"""Reproducer for the C18 violations found on the UNCHANGED tree (see baseline_observations.md).

Every check drives the real code:
    text --API.api_route / api_flow / api_vpls / api_attributes / api_announce_v4 / api_announce_v6-->
    routes --validate_announce (what the API handlers do)--> neighbor.resolve_self (what announce_route does)
    --UpdateCollection.messages(negotiated)--> bytes --Update.unpack_message().parse()--> what the peer reads

Exit status 1 while at least one of the problems is still there, 0 when none is.
Run: cd <tree> && PYTHONPATH=<tree>/src /venv/bin/python _out/baseline_probe.py
"""

from __future__ import annotations

import subprocess
import sys

from exabgp.bgp.message import Open
from exabgp.bgp.message.direction import Direction
from exabgp.bgp.message.open import ASN, HoldTime, RouterID, Version
from exabgp.bgp.message.open.capability import Capabilities, Capability
from exabgp.bgp.message.open.capability.mp import MultiProtocol
from exabgp.bgp.message.open.capability.negotiated import Negotiated
from exabgp.bgp.message.update import Update
from exabgp.bgp.message.update.attribute import Attribute
from exabgp.bgp.message.update.collection import RoutedNLRI, UpdateCollection
from exabgp.configuration.setup import create_minimal_configuration
from exabgp.reactor.api import API
from exabgp.reactor.api.command.announce import validate_announce
from exabgp.util.enumeration import TriState

API_OBJECT = API(None)  # type: ignore[arg-type]


def session(extended_message: bool = True):
    conf = create_minimal_configuration(local_as=65533, peer_as=65533, families='all')
    neighbor = list(conf.neighbors.values())[0]
    neighbor.capability.extended_message = TriState.TRUE if extended_message else TriState.FALSE
    capa = Capabilities().new(neighbor, False)
    mp = MultiProtocol()
    mp.extend(neighbor.families())
    capa[Capability.CODE.MULTIPROTOCOL] = mp
    negotiated = Negotiated.make_negotiated(neighbor, Direction.OUT)
    negotiated.sent(Open.make_open(Version(4), ASN(65533), HoldTime(180), RouterID('1.1.1.1'), capa))
    negotiated.received(Open.make_open(Version(4), ASN(65533), HoldTime(180), RouterID('2.2.2.2'), capa))
    return neighbor, negotiated


NEIGHBOR, NEGOTIATED = session(True)
NEIGHBOR_4K, NEGOTIATED_4K = session(False)


def parse(kind: str, text: str):
    call = {
        'route': API_OBJECT.api_route,
        'flow': API_OBJECT.api_flow,
        'vpls': API_OBJECT.api_vpls,
        'v4': API_OBJECT.api_announce_v4,
        'v6': API_OBJECT.api_announce_v6,
    }
    if kind == 'attributes':
        return API_OBJECT.api_attributes(text, [], 'announce')
    return call[kind](text, 'announce')


def accepted(kind: str, text: str):
    """routes when the text is accepted the way the API handler accepts it, None when refused"""
    routes = parse(kind, text)
    if not routes:
        return None
    for route in routes:
        if validate_announce(route):
            return None
    return routes


def send(route, neighbor=None, negotiated=None):
    neighbor = neighbor or NEIGHBOR
    negotiated = negotiated or NEGOTIATED
    route = neighbor.resolve_self(route)
    return list(UpdateCollection([RoutedNLRI(route.nlri, route.nexthop)], [], route.attributes).messages(negotiated))


def peer_reads(message: bytes, negotiated=None):
    return Update.unpack_message(message[19:], negotiated or NEGOTIATED).parse(negotiated or NEGOTIATED)


PROBLEMS: list[str] = []


def report(tag: str, bad: bool, text: str, observed: str, expected: str) -> None:
    print(f'[{"PROBLEM" if bad else "ok     "}] {tag}: {text[:150]}')
    print(f'            observed: {observed[:300]}')
    if bad:
        print(f'            expected: {expected}')
        PROBLEMS.append(tag)


# --------------------------------------------------------------------------------------------------------
# 1. text answered with an exception which is not the parser's refusal (ValueError is turned into an error
#    message by Section.parse; anything else leaves API.api_* as an exception)
ESCAPES = [
    ('B01', 'route', 'route 10.0.0.0/24 next-hop 1.2.3.4 large-community [ -1:1:1 ]'),
    ('B02', 'route', 'route 10.0.0.0/24 next-hop 1.2.3.4 bgp-prefix-sid 300'),
    ('B03', 'route', 'route 10.0.0.0/24 next-hop 1.2.3.4 bgp-prefix-sid [ 300, [ ( -1,100 ) ] ]'),
    ('B04a', 'route', 'route 10.0.0.0/24 next-hop 1.2.3.4 bgp-prefix-sid-srv6 ( l3-service 2001::1 70000 )'),
    ('B04b', 'route', 'route 10.0.0.0/24 next-hop 1.2.3.4 bgp-prefix-sid-srv6 ( l3-service 2001::1 0x48 [ 300,0,0,0,0,0 ] )'),
    ('B05', 'route', 'route 10.0.0.0/24 next-hop 1.2.3.4 extended-community [ redirect-to-nexthop:1:1 ]'),
    ('B06a', 'flow', 'flow route { match { source 4.4.4.4/32; } then { redirect 65000:-1; } }'),
    ('B06b', 'flow', 'flow route { match { source 4.4.4.4/32; } then { redirect 65536:-1; } }'),
    ('B06c', 'flow', 'flow route { match { source 4.4.4.4/32; } then { rate-limit 10000000000000000000000000000000000000000 packets; } }'),
    ('B06d', 'flow', 'flow route { match { source 4.4.4.4/32; } then { large-community [ -1:1:1 ]; } }'),
    ('B07', 'attributes', 'attributes next-hop 1.2.3.4 nlri 2001::/64 10.2.0.0/24'),
]


def check_escapes() -> None:
    for tag, kind, text in ESCAPES:
        try:
            routes = parse(kind, text)
            observed = f'no exception, {len(routes)} route(s), error={str(API_OBJECT.configuration.error)[:80]!r}'
            bad = False
        except Exception as exc:  # noqa: BLE001
            observed = f'{type(exc).__module__}.{type(exc).__name__}: {exc}'
            bad = True
        report(tag, bad, text, observed, 'a refusal (empty list + error message), never an exception out of API.api_*')


# --------------------------------------------------------------------------------------------------------
# 2. text which is never answered at all
def check_hang() -> None:
    text = 'route 10.0.0.0/24 next-hop 1.2.3.4 bgp-prefix-sid [ 300'
    code = (
        'from exabgp.reactor.api import API\n'
        f'print(API(None).api_route({text!r}, "announce"))\n'
    )
    try:
        done = subprocess.run([sys.executable, '-c', code], capture_output=True, timeout=15, text=True)
        report('B08', False, text, f'answered: {done.stdout.strip()[:80]}', '')
    except subprocess.TimeoutExpired:
        report('B08', True, text, 'no answer after 15 seconds (prefix_sid() loops on the empty token)', "a refusal: missing ']'")


# --------------------------------------------------------------------------------------------------------
# 3. text accepted, encoded without raising, which the peer cannot decode (ExaBGP's own decoder answers it
#    with a NOTIFICATION) or reads as something else
WIRE = [
    ('B09', 'v4', 'ipv4 unicast 2001::/64 next-hop 10.0.1.254', None),
    ('B10a', 'v6', 'ipv6 unicast 10.0.0.0/24 next-hop 10.0.0.1', None),
    ('B10b', 'route', 'route 2001::/64 next-hop 1.2.3.4', ['2001::/64']),
    ('B10c', 'attributes', 'attributes next-hop 1.2.3.4 nlri 10.2.0.0/24 2001::/64', ['10.2.0.0/24', '2001::/64']),
    ('B11a', 'v4', 'ipv4 mup mup-isd 10.0.1.0/33 rd 100:100 next-hop 2001::1', None),
    ('B11b', 'v6', 'ipv6 mup mup-isd 2001::/129 rd 100:100 next-hop 2001::2', None),
    ('B12a', 'flow', 'flow route { match { source 4.4.4.4/32; destination 2001::/64; } then { discard; } }', None),
    ('B12b', 'flow', 'flow route { match { destination 2001::/64; source 4.4.4.4/32; } then { discard; } }', None),
]


def check_wire() -> None:
    for tag, kind, text, expected in WIRE:
        try:
            routes = accepted(kind, text)
        except Exception as exc:  # noqa: BLE001
            report(tag, True, text, f'exception while parsing {type(exc).__name__}: {exc}', 'refusal')
            continue
        if routes is None:
            report(tag, False, text, f'refused: {str(API_OBJECT.configuration.error)[:100]}', '')
            continue
        seen = []
        for route in routes:
            try:
                for message in send(route):
                    try:
                        seen.extend(str(nlri) for nlri in peer_reads(message).nlris)
                    except Exception as exc:  # noqa: BLE001
                        seen.append(f'<peer answers {type(exc).__name__}: {str(exc)[:110]}>')
            except Exception as exc:  # noqa: BLE001
                seen.append(f'<encode raised {type(exc).__name__}: {exc}>')
        if tag.startswith('B12'):
            # both prefixes were written: both have to be in what the peer reads
            bad = not all('4.4.4.4/32' in _ and '2001::/64' in _ for _ in seen)
            wanted = 'refused (an IPv4 and an IPv6 prefix cannot be in one flow), not sent with one of the two silently dropped'
        else:
            bad = seen != (expected or ['<never equal>'])
            wanted = f'refused, or the peer reads {expected}' if expected else 'refused: the family and the prefix disagree / the length is impossible'
        report(tag, bad, text, f'accepted; peer reads {seen}', wanted)


# --------------------------------------------------------------------------------------------------------
# 4. text accepted, part of what was written silently left out
def check_dropped() -> None:
    cases = [
        ('B13a', 'route 10.0.0.0/24 next-hop 1.2.3.4 med 5 med 6', Attribute.CODE.MED, 'med'),
        ('B13b', 'route 10.0.0.0/24 next-hop 1.2.3.4 community [ 1:1 ] community [ 2:2 ]', Attribute.CODE.COMMUNITY, 'community'),
        ('B13c', 'route 10.0.0.0/24 next-hop 1.2.3.4 origin igp attribute [ 0x01 0x40 0x02 ]', Attribute.CODE.ORIGIN, 'origin'),
    ]
    for tag, text, code, name in cases:
        routes = accepted('route', text)
        if routes is None:
            report(tag, False, text, 'refused', '')
            continue
        decoded = peer_reads(send(routes[0])[0])
        value = str(decoded.attributes[code])
        report(tag, True, text, f'accepted; peer reads {name} = {value}', f'refused (two definitions of {name}), or the last/merged value - not silently the first one only')

    text = 'flow route { match { source 4.4.4.4/32; } then { rate-limit 2000000000000; } }'
    routes = accepted('flow', text)
    if routes is None:
        report('B14', False, text, 'refused', '')
    else:
        shown = routes[0].extensive()
        report('B14', 'rate-limit:2000000000000' not in shown, text, f'accepted as: {shown}', 'refused, or 2000000000000 as written (it is clamped to 1000000000000 with a log line only)')


# --------------------------------------------------------------------------------------------------------
# 5. text accepted which cannot be encoded / is never sent
def check_unsendable() -> None:
    text = 'vpls endpoint 5 base 10702 offset 1 size 8 rd 192.168.201.1:123 next-hop self'
    routes = accepted('vpls', text)
    if routes is None:
        report('B15', False, text, 'refused', '')
    else:
        try:
            messages = send(routes[0])
            report('B15', False, text, f'{len(messages)} message(s)', '')
        except Exception as exc:  # noqa: BLE001
            report('B15', True, text, f'accepted; {type(exc).__name__}: {exc}', 'refused at parse time (no session can resolve "self" for the l2vpn AFI), announce_vpls only catches ValueError/IndexError')

    big = 'route 10.0.0.0/24 next-hop 1.2.3.4 attribute [ 0x99 0xc0 0x' + 'ab' * 70000 + ' ]'
    routes = accepted('route', big)
    if routes is None:
        report('B16a', False, big, 'refused', '')
    else:
        try:
            messages = send(routes[0])
            report('B16a', not messages, big, f'{len(messages)} message(s)', 'refused: 70000 octets do not fit the 2-octet attribute length')
        except Exception as exc:  # noqa: BLE001
            report('B16a', True, big, f'accepted; messages() raised {type(exc).__name__}: {exc}', 'refused at parse time: 70000 octets do not fit the 2-octet attribute length')

    many = 'route 10.0.0.0/24 next-hop 1.2.3.4 community [ ' + ' '.join(f'{i >> 8}:{i & 0xFFFF}' for i in range(1, 16385)) + ' ]'
    routes = accepted('route', many)
    if routes is None:
        report('B16b', False, many, 'refused', '')
    else:
        try:
            messages = send(routes[0])
            report('B16b', not messages, many, f'{len(messages)} message(s)', 'refused: 16384 communities are 65536 octets')
        except Exception as exc:  # noqa: BLE001
            report('B16b', True, many, f'accepted; messages() raised {type(exc).__name__}: {exc}', 'refused at parse time: 16384 communities are 65536 octets')

    flow = 'flow route { match { source 4.4.4.4/32; port [ ' + ' '.join(f'={i}' for i in range(1000, 2500)) + ' ]; } then { discard; } }'
    routes = accepted('flow', flow)
    if routes is None:
        report('B19', False, flow, 'refused', '')
    else:
        try:
            messages = send(routes[0])
            report('B19', not messages, flow, f'{len(messages)} message(s)', 'refused: the flow NLRI is longer than 4095 octets')
        except Exception as exc:  # noqa: BLE001
            report('B19', True, flow, f'accepted; messages() raised {type(exc).__name__}: {str(exc)[:160]}', 'refused at parse time: a flow NLRI cannot be longer than 4095 octets (a Notify raised while sending closes the session)')

    some = 'route 10.0.0.0/24 next-hop 1.2.3.4 community [ ' + ' '.join(f'{i >> 8}:{i & 0xFFFF}' for i in range(1, 1021)) + ' ]'
    routes = accepted('route', some)
    if routes is None:
        report('B17', False, some, 'refused', '')
    else:
        with_extended = send(routes[0])
        without = send(routes[0], NEIGHBOR_4K, NEGOTIATED_4K)
        report(
            'B17',
            not without,
            some,
            f'accepted; extended-message session: {[len(_) for _ in with_extended]} octets; 4096-octet session: {[len(_) for _ in without]} (nothing is sent, nothing is reported to the API client)',
            'refused, or an error for the sessions which cannot carry it - not accepted and silently never sent',
        )


# --------------------------------------------------------------------------------------------------------
# 6. valid text which is always refused
def check_valid_refused() -> None:
    for tag, kind, text in [
        ('B18a', 'v4', 'ipv4 multicast 224.0.0.0/24 next-hop 10.0.1.254'),
        ('B18b', 'v6', 'ipv6 multicast ff0e::/64 next-hop 2001::1'),
    ]:
        routes = accepted(kind, text)
        error = str(API_OBJECT.configuration.error)[:90]
        report(tag, routes is None, text, f'refused with: {error}' if routes is None else 'accepted', 'accepted (the command is registered and the family is valid); "route 224.0.0.0/24 next-hop ..." is accepted')


def main() -> int:
    check_escapes()
    check_hang()
    check_wire()
    check_dropped()
    check_unsendable()
    check_valid_refused()
    print()
    if PROBLEMS:
        print(f'{len(PROBLEMS)} problem(s) reproduced: {" ".join(PROBLEMS)}')
        return 1
    print('no problem reproduced')
    return 0


if __name__ == '__main__':
    sys.exit(main())
