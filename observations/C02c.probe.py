#!/usr/bin/env python3
"""Baseline probe for property C02 ("reported routes are exactly what the peer sent").

Every check below drives the REAL, unchanged ExaBGP code (Message.unpack -> Update.parse -> Response.JSON,
UpdateHandler -> Adj-RIB-In, Protocol.read_message, `exabgp decode`) with a well-formed UPDATE and compares what
ExaBGP reports with what an RFC reference decoding of the same bytes gives.

Exit status: 1 while at least one of the problems is still there, 0 when none is.

Run: cd <tree> && PYTHONPATH=<tree>/src /venv/bin/python _out/baseline_probe.py
"""

import asyncio
import json
import os
import socket
import struct
import subprocess
import sys

from exabgp.bgp.message.update.nlri import INET  # noqa: F401  (registers the families)
from exabgp.environment import getenv
from exabgp.logger import log

log.init(getenv())

from exabgp.bgp.message import Message, Open, Update  # noqa: E402
from exabgp.bgp.message.direction import Direction  # noqa: E402
from exabgp.bgp.message.notification import Notify  # noqa: E402
from exabgp.bgp.message.open import ASN, HoldTime, RouterID, Version  # noqa: E402
from exabgp.bgp.message.open.capability import Capabilities, Negotiated  # noqa: E402
from exabgp.bgp.message.update.nlri import NLRI  # noqa: E402
from exabgp.bgp.neighbor import Neighbor  # noqa: E402
from exabgp.protocol.ip import IPv4  # noqa: E402
from exabgp.reactor.api.response import Response  # noqa: E402
from exabgp.reactor.peer.handlers.update import UpdateHandler  # noqa: E402
from exabgp.reactor.protocol import Protocol  # noqa: E402
from exabgp.rib import RIB  # noqa: E402
from exabgp.util.enumeration import TriState  # noqa: E402
from exabgp.version import json as json_version  # noqa: E402

# ------------------------------------------------------------------ harness


def make_negotiated(asn4: bool = True) -> Negotiated:
    n = Neighbor()
    n.router_id = RouterID('127.0.0.1')
    n.local_address = IPv4.from_string('127.0.0.1')
    n.peer_address = IPv4.from_string('127.0.0.2')
    n.peer_as = ASN(65001)
    n.local_as = ASN(65500)
    n.hold_time = HoldTime(180)
    for family in NLRI.known_families():
        n.add_family(family)
    n.capability.asn4 = TriState.TRUE if asn4 else TriState.FALSE
    capa = Capabilities().new(n, False)
    neg = Negotiated.make_negotiated(n, Direction.IN)
    neg.sent(Open.make_open(Version(4), ASN(65500), HoldTime(180), RouterID('127.0.0.1'), capa))
    neg.received(Open.make_open(Version(4), ASN(65001), HoldTime(180), RouterID('127.0.0.2'), capa))
    assert neg.asn4 is asn4
    return neg


def attr(flag: int, code: int, value: bytes) -> bytes:
    if flag & 0x10:
        return bytes([flag, code]) + struct.pack('!H', len(value)) + value
    return bytes([flag, code, len(value)]) + value


def update(withdrawn: bytes = b'', attributes: bytes = b'', nlri: bytes = b'') -> bytes:
    return struct.pack('!H', len(withdrawn)) + withdrawn + struct.pack('!H', len(attributes)) + attributes + nlri


def seg(kind: int, asns: list, fmt: str) -> bytes:
    return bytes([kind, len(asns)]) + b''.join(struct.pack(fmt, a) for a in asns)


def mp_reach(afi: int, safi: int, nexthop: bytes, nlri: bytes, reserved: int = 0) -> bytes:
    return attr(0x90, 14, struct.pack('!HBB', afi, safi, len(nexthop)) + nexthop + bytes([reserved]) + nlri)


ORIGIN = attr(0x40, 1, b'\x00')
NEXT_HOP = attr(0x40, 3, bytes([10, 0, 0, 1]))
AS_SET, AS_SEQUENCE, AS_CONFED_SEQUENCE = 1, 2, 3
P24 = bytes([24, 10, 1, 1])
GLOBAL = socket.inet_pton(socket.AF_INET6, '2001:db8::1')
LINKLOCAL = socket.inet_pton(socket.AF_INET6, 'fe80::1')
V6_NLRI = bytes([32, 0x20, 0x01, 0x0D, 0xB8])


def aspath4(asns: list) -> bytes:
    return attr(0x40, 2, seg(AS_SEQUENCE, asns, '!L'))


def event(body: bytes, neg: Negotiated) -> dict:
    """The JSON API event ExaBGP produces for this UPDATE body."""
    message = Message.unpack(Update.ID, body, neg)
    data = message if getattr(message, 'IS_EOR', False) else message.data
    text = Response.JSON(json_version).update(neg.neighbor, 'receive', data, b'', b'', neg)
    return json.loads(text)['neighbor']['message']


def path_of(ev: dict) -> list:
    path = ev['update']['attribute'].get('as-path', {})
    return [(path[k]['element'], path[k]['value']) for k in sorted(path, key=int)]


class Ctx:
    pass


def session(name: str, neg: Negotiated):
    neg.neighbor.rib = RIB(name, True, True, set(neg.neighbor.families()))
    ctx = Ctx()
    ctx.neighbor = neg.neighbor
    ctx.negotiated = neg
    ctx.peer_id = name
    ctx.stats = {'receive-prefixes': 0, 'receive-withdraws': 0}
    return ctx, UpdateHandler()


def adj_rib_in(neighbor) -> list:
    return sorted((str(r.nlri), str(r.nexthop)) for r in neighbor.rib.incoming.cached_routes())


RESULTS = []


def check(name: str):
    def wrap(function):
        try:
            violated, expected, observed = function()
        except Exception as exc:  # a crash on a well-formed UPDATE is a finding too
            violated, expected, observed = True, 'a decoded UPDATE', '%s: %s' % (type(exc).__name__, exc)
        RESULTS.append((name, violated))
        print('[%s] %s' % ('VIOLATION' if violated else 'ok', name))
        print('      expected: %s' % (expected,))
        print('      observed: %s' % (observed,))
        return function

    return wrap


# ------------------------------------------------------------------ checks

NEG4 = make_negotiated(asn4=True)
NEG2 = make_negotiated(asn4=False)


@check('B01 discarded attribute (AIGP on a session without AIGP): UPDATE reported on the API but never applied to Adj-RIB-In')
def b01():
    neg = make_negotiated(asn4=True)
    n = neg.neighbor
    n.api = {
        'receive-packets': False,
        'receive-consolidate': False,
        'receive-parsed': True,
        'receive-update': True,
        'neighbor-changes': False,
        'negotiated': False,
    }
    ctx, handler = session('probe-b01', neg)
    events = []

    class Processes:
        def message(self, msg_id, peer, direction, message, header, body, negotiated):
            data = message if getattr(message, 'IS_EOR', False) else message.data
            text = Response.JSON(json_version).update(peer.neighbor, direction, data, header, body, negotiated)
            events.append(json.loads(text)['neighbor']['message']['update'])

    class Peer:
        pass

    class Reactor:
        pass

    peer = Peer()
    peer.neighbor = n
    peer.stats = {}
    peer.reactor = Reactor()
    peer.reactor.processes = Processes()

    base = ORIGIN + aspath4([65001]) + NEXT_HOP
    aigp = attr(0x80, 26, bytes([1, 0, 11]) + struct.pack('!Q', 10))
    bodies = [
        update(b'', base, bytes([24, 10, 1, 1])),
        update(b'', base + aigp, bytes([24, 10, 2, 2])),
        update(bytes([24, 10, 1, 1]), base + aigp, bytes([24, 10, 3, 3])),
    ]

    class Connection:
        def session(self):
            return 'probe'

        async def reader_async(self):
            body = bodies.pop(0)
            header = b'\xff' * 16 + struct.pack('!HB', 19 + len(body), 2)
            return 19 + len(body), 2, header, body, None

    protocol = Protocol(peer)
    protocol.negotiated = neg
    protocol.connection = Connection()

    async def run():
        for _ in range(3):
            message = await protocol.read_message()
            if handler.can_handle(message):
                await handler.handle_async(ctx, message)

    asyncio.run(run())
    api_announced = sorted(p['nlri'] for e in events for nh in e.get('announce', {}).get('ipv4 unicast', {}).values() for p in nh)
    stored = adj_rib_in(n)
    expected = [('10.2.2.0/24', '10.0.0.1'), ('10.3.3.0/24', '10.0.0.1')]
    return stored != expected, 'Adj-RIB-In %s (API announced %s, withdrew 10.1.1.0/24)' % (expected, api_announced), 'Adj-RIB-In %s' % stored


@check('B02 AS4_PATH received from a 4-byte (NEW) peer is merged over AS_PATH instead of being discarded (RFC 6793 section 6)')
def b02():
    as4 = attr(0xC0, 17, seg(AS_SEQUENCE, [70000, 80000], '!L'))
    ev = event(update(b'', ORIGIN + aspath4([100, 200, 300]) + NEXT_HOP + as4, P24), NEG4)
    expected = [('as-sequence', [100, 200, 300])]
    return path_of(ev) != expected, expected, path_of(ev)


@check('B03 AGGREGATOR AS is not AS_TRANS: AS4_PATH must be ignored (RFC 6793 4.2.3), it is merged')
def b03():
    attributes = (
        ORIGIN
        + attr(0x40, 2, seg(AS_SEQUENCE, [100, 23456, 300], '!H'))
        + NEXT_HOP
        + attr(0xC0, 7, struct.pack('!H', 100) + bytes([1, 1, 1, 1]))
        + attr(0xC0, 17, seg(AS_SEQUENCE, [70000, 300], '!L'))
        + attr(0xC0, 18, struct.pack('!L', 70000) + bytes([2, 2, 2, 2]))
    )
    ev = event(update(b'', attributes, P24), NEG2)
    expected = [('as-sequence', [100, 23456, 300])]
    return path_of(ev) != expected, '%s aggregator 100:1.1.1.1' % expected, '%s aggregator %s' % (path_of(ev), ev['update']['attribute'].get('aggregator'))


@check('B04 AS_PATH/AS4_PATH merge counts confederation segments (RFC 6793 4.2.3 / RFC 5065 5.3 do not)')
def b04():
    attributes = (
        ORIGIN
        + attr(0x40, 2, seg(AS_CONFED_SEQUENCE, [65001, 65002], '!H') + seg(AS_SEQUENCE, [23456], '!H'))
        + NEXT_HOP
        + attr(0xC0, 17, seg(AS_SEQUENCE, [70000, 80000], '!L'))
    )
    ev = event(update(b'', attributes, P24), NEG2)
    # AS_PATH holds 1 AS (confed segments do not count), AS4_PATH 2: AS4_PATH is ignored
    expected = [('as-confed-sequence', [65001, 65002]), ('as-sequence', [23456])]
    return path_of(ev) != expected, expected, path_of(ev)


@check('B05 trailing bits of a prefix are kept: wrong prefix text, two Adj-RIB-In entries for one route, withdraw misses')
def b05():
    neg = make_negotiated(asn4=True)
    ctx, handler = session('probe-b05', neg)
    base = ORIGIN + aspath4([65001]) + NEXT_HOP
    bodies = [
        update(b'', base, bytes([20, 10, 1, 0x1F])),  # 10.1.16.0/20, trailing bits 1111
        update(b'', base, bytes([20, 10, 1, 0x10])),  # 10.1.16.0/20, trailing bits 0000
    ]
    texts = []
    for body in bodies:
        message = Message.unpack(Update.ID, body, neg)
        texts.append(event(body, neg)['update']['announce']['ipv4 unicast']['10.0.0.1'][0]['nlri'])
        list(handler.handle(ctx, message))
    two = adj_rib_in(neg.neighbor)
    list(handler.handle(ctx, Message.unpack(Update.ID, update(bytes([20, 10, 1, 0x10])), neg)))
    after = adj_rib_in(neg.neighbor)
    violated = texts != ['10.1.16.0/20', '10.1.16.0/20'] or len(two) != 1 or after != []
    return violated, "json ['10.1.16.0/20', '10.1.16.0/20'], one route stored, none after the withdraw", 'json %s, stored %s, after withdraw %s' % (texts, two, after)


@check('B06 MP_REACH_NLRI with a 32 byte next hop (global + link-local, RFC 2545): the link-local address is dropped')
def b06():
    ev = event(update(b'', ORIGIN + aspath4([65001]) + mp_reach(2, 1, GLOBAL + LINKLOCAL, V6_NLRI)), NEG4)
    text = json.dumps(ev)
    return 'fe80::1' not in text, 'both 2001:db8::1 and fe80::1 reported', ev['update']['announce']


@check('B07 extended community dispatch ignores the high type bits: 0x0008 (two-octet AS, sub-type 8) shown as FlowSpec redirect')
def b07():
    communities = [
        bytes([0x00, 0x08]) + struct.pack('!HL', 65000, 1),  # IANA: BGP Data Collection
        bytes([0x00, 0x06]) + struct.pack('!HL', 65000, 1),  # unassigned in the two-octet AS range
        bytes([0x90, 0x02]) + struct.pack('!HL', 65000, 1),  # type 0x90 is not Route Target
    ]
    ev = event(update(b'', ORIGIN + aspath4([65001]) + NEXT_HOP + attr(0xC0, 16, b''.join(communities)), P24), NEG4)
    strings = [c['string'] for c in ev['update']['attribute']['extended-community']]
    bad = [s for s in strings if s.startswith(('redirect', 'rate-limit', 'target'))]
    return bool(bad), 'none of them described as redirect / rate-limit / target', strings


@check('B08 `exabgp decode` does not report End-of-RIB markers (no "eor" member, family lost)')
def b08():
    tree = os.path.dirname(os.path.dirname(os.path.abspath(__file__)))
    env = dict(os.environ, PYTHONPATH=os.path.join(tree, 'src'))
    observed = {}
    for name, body in (('ipv4 unicast', '00000000'), ('ipv6 unicast', '00000007900f0003000201')):
        raw = bytes.fromhex(body)
        message = (b'\xff' * 16 + struct.pack('!HB', 19 + len(raw), 2) + raw).hex()
        out = subprocess.run([sys.executable, '-m', 'exabgp', 'decode', message], capture_output=True, text=True, env=env, timeout=120)
        line = [_ for _ in out.stdout.splitlines() if _.startswith('{')]
        observed[name] = json.loads(line[-1])['neighbor']['message'] if line else out.stdout + out.stderr
    expected = {
        'ipv4 unicast': {'eor': {'afi': 'ipv4', 'safi': 'unicast'}},
        'ipv6 unicast': {'eor': {'afi': 'ipv6', 'safi': 'unicast'}},
    }
    return observed != expected, expected, observed


@check('B09 UPDATE carrying only an unrecognised optional non-transitive attribute is reported as the IPv4 unicast End-of-RIB')
def b09():
    ev = event(update(b'', attr(0x80, 250, b'abc')), NEG4)
    return 'eor' in ev, 'an (empty) update, not an End-of-RIB marker', ev


@check('B10 VPN-IPv6 MP_REACH_NLRI with the 48 byte next hop of RFC 4659 3.2.1.1 (global + link-local) is refused')
def b10():
    rd = b'\x00\x00\xfd\xe8\x00\x00\x00\x01'
    label = b'\x00\x06\x41'
    nlri = bytes([24 + 64 + 32]) + label + rd + bytes([0x20, 0x01, 0x0D, 0xB8])
    body = update(b'', ORIGIN + aspath4([65001]) + mp_reach(2, 128, bytes(8) + GLOBAL + bytes(8) + LINKLOCAL, nlri))
    try:
        ev = event(body, NEG4)
    except Notify as exc:
        return True, 'ipv6 mpls-vpn announce of 2001:db8::/32 rd 65000:1', 'Notify: %s' % exc
    return False, 'ipv6 mpls-vpn announce', ev['update'].get('announce')


@check('B11 MP_REACH_NLRI whose reserved octet is not 0 is refused (RFC 4760 section 3: SHOULD be ignored upon receipt)')
def b11():
    body = update(b'', ORIGIN + aspath4([65001]) + mp_reach(2, 1, GLOBAL, V6_NLRI, reserved=1))
    try:
        ev = event(body, NEG4)
    except Notify as exc:
        return True, 'ipv6 unicast announce of 2001:db8::/32 via 2001:db8::1', 'Notify: %s' % exc
    return False, 'ipv6 unicast announce', ev['update'].get('announce')


@check('B12 unknown optional transitive attribute: flags reported differ from the flags sent (PARTIAL invented, key depends on EXTENDED_LENGTH)')
def b12():
    base = ORIGIN + aspath4([65001]) + NEXT_HOP
    keys = []
    for flag in (0xC0, 0xD0):
        ev = event(update(b'', base + attr(flag, 99, b'\x01\x02'), P24), NEG4)
        keys.extend(k for k in ev['update']['attribute'] if k.startswith('attribute-'))
    return keys != ['attribute-0x63-0xC0', 'attribute-0x63-0xC0'], "['attribute-0x63-0xC0', 'attribute-0x63-0xC0'] (same attribute, PARTIAL not set by the peer)", keys


@check('B13 the same End-of-RIB marker is an EOR or a NOTIFICATION depending on how its attribute length is encoded (family never negotiated)')
def b13():
    neg = make_negotiated(asn4=True)
    outcomes = []
    for flag in (0x90, 0x80):  # extended length (11 byte body, fast path) / one byte length (10 byte body, parsed)
        body = update(b'', attr(flag, 15, struct.pack('!HB', 99, 77)))
        try:
            outcomes.append(json.dumps(event(body, neg)))
        except Notify as exc:
            outcomes.append('Notify: %s' % exc)
    return outcomes[0] != outcomes[1], 'the same outcome for both encodings of MP_UNREACH_NLRI { afi 99, safi 77 }', outcomes


def main() -> int:
    violations = [name for name, violated in RESULTS if violated]
    print()
    print('%d check(s), %d violation(s)' % (len(RESULTS), len(violations)))
    return 1 if violations else 0


if __name__ == '__main__':
    sys.exit(main())
