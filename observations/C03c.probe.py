#!/usr/bin/env python3
"""baseline_probe.py - reproducers for violations of C03 which the UNCHANGED tree already has.

run:  cd /tmp/seed/C03c && PYTHONPATH=/tmp/seed/C03c/src /venv/bin/python _out/baseline_probe.py
      (about one minute; exit 1 while any of the C03 problems exists, 0 when none does)

The checks live in _out/baseline/ (harness.py builds a real Negotiated and drives the real Message.unpack and the
API encoders; probe_open.py also drives the real Peer / Protocol / Connection.reader_async over a fake byte stream):

  probe_attr.py   path attribute decoders and printers
  probe_nlri.py   NLRI decoders reached through MP_REACH_NLRI / MP_UNREACH_NLRI, next-hop sizing
  probe_open.py   OPEN / negotiation / NOTIFICATION / ROUTE-REFRESH / reader / peer loop
  probe_extra.py  Protocol.read_message with the API enabled, text encoder, AIGP

Each line printed below carries the id used in baseline_observations.md.  Every check returns True when the
problem EXISTS.  Category letters: A untyped exception, B ill-formed JSON, C time not proportional to size,
D valid (or to-be-tolerated) input refused / dropped, E NOTIFICATION with an undefined or wrong code / data,
R related mis-decode which is not C03 itself (reported, does not decide the exit code).
"""

import io
import os
import sys
import traceback
from contextlib import redirect_stdout

HERE = os.path.dirname(os.path.abspath(__file__))
sys.path.insert(0, os.path.join(HERE, 'baseline'))

import probe_attr  # noqa: E402
import probe_extra  # noqa: E402
import probe_nlri  # noqa: E402
import probe_open  # noqa: E402

# (id, category, module, function name)
PLAN = [
    # A - untyped exceptions
    ('A1', 'A', probe_attr, 'check_traffic_rate_nan_inf'),
    ('A1b', 'A', probe_extra, 'read_message_escapes_untyped_with_api'),
    ('A2', 'A', probe_attr, 'check_bgpls_isis_area_bigint'),
    ('A3', 'A', probe_nlri, 'bgpls_prefixv6_long_ipreach_valueerror'),
    ('A4', 'A', probe_open, 'chk01_multisession_without_mp_keyerror'),
    ('A5', 'A', probe_attr, 'check_malformed_community_notify_cannot_be_sent'),
    # B - ill-formed JSON
    ('B1', 'B', probe_attr, 'check_bgpls_float_nan_json'),
    ('B2', 'B', probe_attr, 'check_tunnel_encap_dup_sr_policy'),
    ('B3', 'B', probe_attr, 'check_sr_policy_dup_subtlv'),
    # C - time
    ('C1', 'C', probe_nlri, 'update_str_quadratic'),
    ('C2', 'C', probe_extra, 'text_encoder_output_is_quadratic'),
    # D - valid input refused or dropped
    ('D1', 'D', probe_open, 'chk04_extended_message_not_applied_with_auto_local_as'),
    ('D2', 'D', probe_open, 'chk03_rfc9072_nonext_len_not_255_refused'),
    ('D3', 'D', probe_nlri, 'mup_addpath_pathid_not_consumed'),
    ('D4', 'D', probe_nlri, 'vpls_two_nlri_refused'),
    ('D5', 'D', probe_nlri, 'rtc_partial_prefix_refused_or_misframed'),
    ('D6', 'D', probe_nlri, 'nexthop_evpn_ipv6_refused'),
    ('D7', 'D', probe_nlri, 'nexthop_vpnv6_48_refused_40_accepted'),
    ('D8', 'D', probe_nlri, 'nexthop_mcastvpn_ipv4_with_ipv6_refused'),
    ('D9', 'D', probe_nlri, 'bgpls_protocol_id_bgp_refused'),
    ('D10', 'D', probe_nlri, 'bgpls_unknown_node_subtlv_refused'),
    ('D11', 'D', probe_nlri, 'bgpls_direct_protocol_router_id_refused'),
    ('D12', 'D', probe_attr, 'check_flag_low_bits_treat_as_withdraw'),
    ('D13', 'D', probe_attr, 'check_mp_reach_reserved_octet_refused'),
    ('D14', 'D', probe_extra, 'aigp_on_plain_session_swallows_the_update'),
    ('D15', 'D', probe_nlri, 'flow_unreadable_withdraw_becomes_eor'),
    ('D16', 'D', probe_nlri, 'mpls_withdraw_compat_label_refused'),
    ('D17', 'D', probe_open, 'chk09_route_refresh_reserved_field_refused_with_undefined_subcode'),
    ('D18', 'D', probe_open, 'chk10_keepalive_with_zero_holdtime_tears_down_with_open_error'),
    # E - NOTIFICATION code / data
    ('E1', 'E', probe_open, 'chk08_route_refresh_length_error_code'),
    ('E2', 'E', probe_open, 'chk06_unknown_optional_parameter_subcode'),
    ('E3', 'E', probe_open, 'chk05_unsupported_version_data_is_text'),
    ('E4', 'E', probe_open, 'chk07_header_error_data_is_text'),
    ('E5', 'E', probe_open, 'chk12_oversize_notification_from_open_error'),
    # R - related
    ('R1', 'R', probe_open, 'chk02_open_in_established_is_swallowed'),
    ('R2', 'R', probe_nlri, 'flow6_prefix_offset_misframed'),
    ('R3', 'R', probe_nlri, 'bgpls_prefixv4_long_ipreach_garbage'),
    ('R4', 'R', probe_nlri, 'rtc_route_target_type_bits_cleared'),
    ('R5', 'R', probe_nlri, 'flowvpn_without_rd_accepted'),
    ('R6', 'R', probe_nlri, 'bgpls_vpn_safi_and_rd_lost'),
    ('R7', 'R', probe_nlri, 'evpn_mac_second_label_dropped'),
    ('R8', 'R', probe_nlri, 'generic_bgpls_deepcopy_loses_code'),
    ('R9', 'R', probe_attr, 'check_as4_path_merged_on_asn4_session'),
    ('R10', 'R', probe_attr, 'check_lan_adj_sid_json_drops_sid'),
    ('R11', 'R', probe_open, 'chk11_rfc9003_shutdown_communication_over_128'),
    ('R12', 'R', probe_open, 'chk13_graceful_restart_json_labels_swapped'),
    ('R13', 'R', probe_attr, 'check_zero_length_discard_class_is_withdraw'),
    ('R14', 'R', probe_attr, 'check_malformed_as4_path_is_withdraw'),
    ('R15', 'R', probe_attr, 'check_bgpls_unknown_tlv_class_synthesis_cost'),
]


def run(function):
    """normalise the three return conventions: bool (+ printed detail) or (bool, detail)"""
    captured = io.StringIO()
    try:
        with redirect_stdout(captured):
            result = function()
    except BaseException as exc:  # noqa: BLE001 - a check which breaks is reported, not counted
        return None, 'the check itself failed: %s: %s\n%s' % (type(exc).__name__, exc, traceback.format_exc(limit=3))
    printed = ' | '.join(line.strip() for line in captured.getvalue().splitlines() if line.strip())
    if isinstance(result, tuple):
        exists, detail = result
        detail = str(detail) + (' | ' + printed if printed else '')
    else:
        exists, detail = bool(result), printed
    return bool(exists), detail


def main():
    only = set(sys.argv[1:])
    counted = 0
    related = 0
    broken = 0
    for ident, category, module, name in PLAN:
        if only and ident not in only:
            continue
        exists, detail = run(getattr(module, name))
        if exists is None:
            status = 'ERROR  '
            broken += 1
        elif exists:
            status = 'PROBLEM'
            if category == 'R':
                related += 1
            else:
                counted += 1
        else:
            status = 'absent '
        print('%-4s %s %s.%s' % (ident, status, module.__name__, name))
        for chunk in detail.split(' | '):
            if chunk:
                print('         %s' % chunk[:300])
    print()
    print('%d C03 problem(s) exist, %d related mis-decode(s), %d check(s) could not run' % (counted, related, broken))
    return 1 if counted else 0


if __name__ == '__main__':
    sys.exit(main())
