"""C11 / seeded change 3: an End-of-RIB marker for EACH negotiated family after the re-advertisement.

Two families are negotiated (ipv4 unicast, ipv6 unicast), one configured route in each.  The remote speaker
announces the Graceful Restart capability for ipv4 unicast only (RFC 4724 lets a speaker list any subset of its
families, or none at all when it is only a helper); both families are in its Multiprotocol capabilities, so both are
negotiated.  Session 1 is cut after the first UPDATE; on the next session the remote speaker must be sent both
routes again and one End-of-RIB per negotiated family.

Exit 0 when both End-of-RIB markers arrive after the routes, 1 otherwise.
"""

import os
import sys

sys.path.insert(0, os.path.join(os.path.dirname(os.path.abspath(__file__)), '..'))

from exabgp.bgp.message.open.capability import Capability  # noqa: E402
from exabgp.protocol.family import AFI, SAFI  # noqa: E402

from harness import Bench, config, run, static  # noqa: E402

A = '10.0.1.0/24 next-hop 1.1.1.1'
V6 = '2001:db8::/32 next-hop 2001:db8::1'


def graceful_for_ipv4_only(open_message) -> None:
    graceful = open_message.capabilities[Capability.CODE.GRACEFUL_RESTART]
    graceful.pop((AFI.ipv6, SAFI.unicast))


async def main() -> int:
    bench = Bench(config(static(A, V6), family='ipv4 unicast; ipv6 unicast;'))
    bench.remote.open_rewrite = graceful_for_ipv4_only

    await bench.start_session(cut_after_updates=1)
    await bench.wait_down()
    print('session 1 : cut by the remote end after the first UPDATE')

    second = await bench.start_session()
    await bench.settle(second, families=2, timeout=3)
    negotiated = ['%s/%s' % family for family in bench.remote.negotiated.families]
    await bench.stop()

    print('negotiated families :', negotiated)
    print('session 2           :', second.describe())
    print('expected            : both routes, then End-of-RIB for ipv4/unicast and for ipv6/unicast')
    got = {'%s/%s' % family for family in second.eor}
    ok = second.prefixes() == {'10.0.1.0/24', '2001:db8::/32'} and got == set(negotiated) and len(negotiated) == 2 and not second.after_eor
    print('RESULT              : %s' % ('ok' if ok else 'VIOLATION (no End-of-RIB for %s)' % sorted(set(negotiated) - got)))
    return 0 if ok else 1


if __name__ == '__main__':
    sys.exit(run(main()))
