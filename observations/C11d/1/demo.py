"""C11 / seeded change 1: the End-of-RIB must FOLLOW the complete Adj-RIB-Out on the session after a loss.

History: 60 configured routes with 60 different attribute sets (60 UPDATE messages, more than the 25 the peer
loop writes per turn).  The first session is cut by the remote end after 30 UPDATEs (in the middle of the
partially consumed update generator).  On the next session the remote speaker must receive all 60 routes and
THEN one End-of-RIB: a graceful-restart peer deletes, at the End-of-RIB, every stale route it has not been
sent again.

Exit 0 when the End-of-RIB closes the table, 1 otherwise.
"""

import os
import sys

sys.path.insert(0, os.path.join(os.path.dirname(os.path.abspath(__file__)), '..'))

from harness import Bench, config, run, static  # noqa: E402

ROUTES = ['10.1.%d.0/24 next-hop 1.1.1.1 med %d' % (i, i) for i in range(60)]
PREFIXES = {'10.1.%d.0/24' % i for i in range(60)}


async def main() -> int:
    bench = Bench(config(static(*ROUTES)))
    await bench.start_session(cut_after_updates=30)
    await bench.wait_down()

    session = await bench.start_session()
    await bench.settle(session)
    await bench.stop()

    kinds = [kind for kind, _ in session.messages if kind in ('announce', 'eor')]
    position = kinds.index('eor') if 'eor' in kinds else -1
    at_eor = {detail for kind, detail in session.messages[: [k for k, _ in session.messages].index('eor')] if kind == 'announce'} if position >= 0 else set()

    print('session after the loss: %d announces, End-of-RIB is message number %d of %d' % (kinds.count('announce'), position + 1, len(kinds)))
    print('expected : 60 routes announced, then the End-of-RIB (message 61 of 61)')
    print('observed : %d routes known to the peer when the End-of-RIB arrived, %d announced after it' % (len(at_eor), len(session.after_eor)))
    if session.after_eor:
        print('           a graceful-restart peer has dropped as stale: %s ...' % ', '.join(sorted(session.after_eor)[:4]))

    ok = session.prefixes() == PREFIXES and at_eor == PREFIXES and not session.after_eor and len(session.eor) == 1
    print('RESULT   : %s' % ('ok' if ok else 'VIOLATION (End-of-RIB sent in the middle of the re-advertisement)'))
    return 0 if ok else 1


if __name__ == '__main__':
    sys.exit(run(main()))
