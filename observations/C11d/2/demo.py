"""C11 / seeded change 2: a route withdrawn while the session was down is not re-advertised.

History (adj-rib-out kept, the default): two configured routes, session 1 announces both, the session is lost,
the API process sends `withdraw route 10.0.2.0/24 ...` while the peer is down, and announces a third route.
The next session must carry 10.0.1.0/24 (configured, never withdrawn) and 10.0.3.0/24 (API), then the End-of-RIB;
10.0.2.0/24 was withdrawn while the session was down and must not come back.

Exit 0 when the peer table equals the intended table, 1 otherwise.
"""

import os
import sys

sys.path.insert(0, os.path.join(os.path.dirname(os.path.abspath(__file__)), '..'))

from harness import Bench, config, run, static  # noqa: E402

A = '10.0.1.0/24 next-hop 1.1.1.1'
B = '10.0.2.0/24 next-hop 1.1.1.1'
C = '10.0.3.0/24 next-hop 1.1.1.1'


async def main() -> int:
    bench = Bench(config(static(A, B)))
    first = await bench.start_session()
    await bench.settle(first)
    print('session 1 :', first.describe())
    await bench.drop()

    print('while down: withdraw route %s -> %s' % (B, await bench.api('withdraw route ' + B)))
    print('while down: announce route %s -> %s' % (C, await bench.api('announce route ' + C)))
    intended = bench.intended()

    second = await bench.start_session()
    await bench.settle(second)
    await bench.stop()

    expected = {'10.0.1.0/24', '10.0.3.0/24'}
    print('session 2 :', second.describe())
    print('expected  : table=%s then one End-of-RIB (Adj-RIB-Out as ExaBGP keeps it: %s)' % (sorted(expected), sorted(intended)))
    ok = second.prefixes() == expected and len(second.eor) == 1 and not second.after_eor
    print('RESULT    : %s' % ('ok' if ok else 'VIOLATION (%s re-advertised although withdrawn while the session was down)' % sorted(second.prefixes() - expected)))
    return 0 if ok else 1


if __name__ == '__main__':
    sys.exit(run(main()))
