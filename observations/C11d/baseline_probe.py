"""C11 -- violations of "after any session loss the peer is fully resynchronised" on the UNCHANGED tree.

Every case drives the real Peer / Reactor / Configuration / Listener code over loopback TCP against a scripted
remote speaker (harness.py, in this directory) and compares what the remote speaker holds once the session which
follows the loss has settled with what the configuration and the API history say it should hold.

    cd <tree> && PYTHONPATH=<tree>/src /venv/bin/python _out/baseline_probe.py [case ...]

Exit 1 while at least one case still shows the problem, 0 when none does.
"""

from __future__ import annotations

import asyncio
import os
import sys

sys.path.insert(0, os.path.dirname(os.path.abspath(__file__)))

from harness import Bench, ListenerBench, config, run, static  # noqa: E402

from exabgp.rib import RIB  # noqa: E402

A = '10.0.1.0/24 next-hop 1.1.1.1'
B = '10.0.2.0/24 next-hop 1.1.1.1'
C = '10.0.3.0/24 next-hop 1.1.1.1'
NO_ADJ_RIB_OUT = {'options': 'adj-rib-out false;', 'capability': 'graceful-restart 120; route-refresh disable;'}


def reload(bench: Bench, text: str) -> bool:
    """What SIGUSR1 does: Reactor.reload() on the (edited) configuration."""
    bench.configuration._configurations = [text]
    return bench.reactor.reload()


def report(name: str, expected: object, observed: object, bad: bool, note: str = '') -> bool:
    print('[%s] %s' % ('VIOLATION' if bad else 'ok', name))
    print('      expected: %s' % (expected,))
    print('      observed: %s' % (observed,))
    if note:
        print('      note    : %s' % note)
    return bad


# ------------------------------------------------------------------------------------------------------------------
# 1. two reloads while the peer is down: the route removed by the first one is advertised again
# ------------------------------------------------------------------------------------------------------------------


async def two_reloads_while_down() -> bool:
    bench = Bench(config(static(A, B)))
    first = await bench.start_session()
    await bench.settle(first)
    await bench.drop()

    # reload 1: the neighbor itself changes (hold-time) and 10.0.2.0/24 leaves the configuration -> Peer.reestablish()
    changed = config(static(A)).replace('hold-time 180', 'hold-time 90')
    assert reload(bench, changed)
    # the peer is still down: a connection attempt dies during establishment (Peer._reset() takes the new neighbor)
    await bench.start_session(cut_after_open=True)
    await bench.wait_down()
    # reload 2: the same file again (or any other edit)
    assert reload(bench, changed)

    session = await bench.start_session()
    await bench.settle(session)
    configured = sorted(str(route.nlri) for route in bench.peer.neighbor.routes)
    await bench.stop()
    expected = {'10.0.1.0/24'}
    return report(
        'two reloads while the peer is down (first one modifies the neighbor and removes a route)',
        'table %s (configured routes: %s, nothing announced through the API)' % (sorted(expected), configured),
        'table %s' % sorted(session.prefixes()),
        session.prefixes() != expected,
        'Peer.reestablish() leaves the removal to the next _main() (neighbor.previous); the second reload replaces the neighbor, and its .previous is the neighbor of reload 1',
    )


# ------------------------------------------------------------------------------------------------------------------
# 2. 'restart' (SIGALRM / API restart): the configuration is read again, the peer keeps the old neighbor
# ------------------------------------------------------------------------------------------------------------------


async def restart_keeps_removed_route() -> bool:
    bench = Bench(config(static(A, B)))
    first = await bench.start_session()
    await bench.settle(first)

    bench.configuration._configurations = [config(static(A, C))]
    bench.reactor.restart()  # what SIGALRM and the API command 'restart' run
    await bench.wait_down()

    session = await bench.start_session()
    await bench.settle(session)
    configured = sorted(str(route.nlri) for route in bench.configuration.neighbors[bench.name].routes)
    await bench.stop()
    expected = {'10.0.1.0/24', '10.0.3.0/24'}
    return report(
        "'restart' after 10.0.2.0/24 was replaced by 10.0.3.0/24 in the configuration file",
        'table %s (configured routes now: %s)' % (sorted(expected), configured),
        'table %s' % sorted(session.prefixes()),
        session.prefixes() != expected,
        'Reactor.restart() reloads the configuration but calls peer.reestablish() without the new neighbor: nobody ever compares old and new routes',
    )


# ------------------------------------------------------------------------------------------------------------------
# 3. a route announced several times while the session is down: the peer ends up with attributes which were replaced
# ------------------------------------------------------------------------------------------------------------------


async def replaced_while_down() -> bool:
    bench = Bench(config(static(A)))
    first = await bench.start_session()
    await bench.settle(first)
    await bench.api('announce route 10.8.0.0/24 next-hop 1.1.1.1 med 100')
    await bench.settle(first)
    await bench.drop()

    # a health check flapping while the peer is down: down (1000), up (100), down (1000)
    for med in (1000, 100, 1000):
        assert await bench.api('announce route 10.8.0.0/24 next-hop 1.1.1.1 med %d' % med) == 'done'

    session = await bench.start_session()
    await bench.settle(session)
    kept = {str(route.nlri): str(route.attributes).strip() for route in bench.rib.cached_routes(None)}
    got = {value[0]: value[2].strip() for value in session.table.values()}
    await bench.stop()
    return report(
        'announce route X med 1000 / med 100 / med 1000 while the session is down',
        'peer holds 10.8.0.0/24 with "%s" (Adj-RIB-Out)' % kept.get('10.8.0.0/24'),
        'peer holds 10.8.0.0/24 with "%s"; UPDATEs of the session: %s' % (got.get('10.8.0.0/24'), [m for m in session.messages if m[1] == '10.8.0.0/24']),
        'med 1000' not in got.get('10.8.0.0/24', ''),
        'OutgoingRIB._update_rib() leaves the replaced announcement queued under its own attribute index; updates() walks the attribute groups in order of first use, the replaced one is sent last',
    )


# ------------------------------------------------------------------------------------------------------------------
# 4. range neighbor (dynamic peers): the peers made from one range share ONE RIB object (and one Session object)
# ------------------------------------------------------------------------------------------------------------------

RANGE = """
neighbor 127.0.0.0/24 {
    router-id 10.0.0.1;
    local-address 127.0.0.1;
    local-as 65000;
    peer-as 65000;
    hold-time 180;
    passive true;
    capability { graceful-restart 120; }
    family { ipv4 unicast; }
    %s
}
"""


async def range_peers_share_rib() -> bool:
    bench = ListenerBench(RANGE % static(A, B))
    bench.start()
    template = list(bench.configuration.neighbors.values())[0]
    before = str(template.session.peer_address)
    five = bench.dialer('127.0.0.5')
    six = bench.dialer('127.0.0.6')
    first = await bench.connect(five)
    await bench.wait_eor(first)
    second = await bench.connect(six)
    await bench.wait_eor(second)
    after = str(template.session.peer_address)
    peers = {key.split(' ')[1]: peer for key, peer in bench.reactor._peers.items()}
    shared = '127.0.0.5' in peers and '127.0.0.6' in peers and peers['127.0.0.5'].neighbor.rib is peers['127.0.0.6'].neighbor.rib
    await bench.stop()
    expected = {'10.0.1.0/24', '10.0.2.0/24'}
    bad = second.established and (second.prefixes() != expected)
    return report(
        'two speakers of the range 127.0.0.0/24 connect one after the other',
        'each session: table %s then End-of-RIB' % sorted(expected),
        '127.0.0.5: %s (%d UPDATEs) | 127.0.0.6: %s' % (first.describe(), first.updates, second.describe()),
        bad,
        'listener: copy.copy(range neighbor) -> same RIB object for both peers: %s (the table queued for 127.0.0.6 went to 127.0.0.5 a second time); same Session object: the peer-address of the RANGE went from %s to %s'
        % (shared, before, after),
    )


# ------------------------------------------------------------------------------------------------------------------
# 5. adj-rib-out false
# ------------------------------------------------------------------------------------------------------------------


async def no_adj_rib_out_withdrawn_while_down() -> bool:
    bench = Bench(config(static(A, B), **NO_ADJ_RIB_OUT))
    first = await bench.start_session()
    await bench.settle(first)
    await bench.drop()
    assert await bench.api('withdraw route ' + A) == 'done'
    session = await bench.start_session()
    await bench.settle(session)
    await bench.stop()
    expected = {'10.0.2.0/24'}
    return report(
        'adj-rib-out false: configured route withdrawn through the API while the session is down',
        'table %s (10.0.1.0/24 was withdrawn while the session was down)' % sorted(expected),
        'table %s; messages %s' % (sorted(session.prefixes()), session.messages),
        session.prefixes() != expected,
        'replace_restart() queues every configured route again, the withdraw queued while down is not sent in the first window of the session',
    )


async def no_adj_rib_out_announced_while_down() -> bool:
    bench = Bench(config(static(A, B), **NO_ADJ_RIB_OUT))
    assert await bench.api('announce route ' + C) == 'done'  # the API process announces at start-up, before any session
    await bench.start_session(cut_after_open=True)  # first connection dies during establishment
    await bench.wait_down()
    session = await bench.start_session()
    await bench.settle(session)
    await bench.stop()
    expected = {'10.0.1.0/24', '10.0.2.0/24', '10.0.3.0/24'}
    return report(
        'adj-rib-out false: route announced through the API before the first session, first connection fails',
        'table %s (10.0.3.0/24 was never sent on any session, and never withdrawn)' % sorted(expected),
        'table %s' % sorted(session.prefixes()),
        session.prefixes() != expected,
        'Peer._reset() -> reset_rib() drains the queue, the only place the route lived; the API process was answered "done"',
    )


# ------------------------------------------------------------------------------------------------------------------
# 6. passive neighbor: after the first loss ExaBGP connects out, the incoming connection is not served
# ------------------------------------------------------------------------------------------------------------------

PASSIVE = RANGE.replace('127.0.0.0/24', '127.0.0.5')


async def passive_after_loss() -> bool:
    bench = ListenerBench(PASSIVE % static(A, B))
    bench.start()
    five = bench.dialer('127.0.0.5')
    first = await bench.connect(five)
    await bench.wait_eor(first)
    await bench.hangup(five)
    await asyncio.sleep(1.0)
    peer = list(bench.reactor._peers.values())[0]
    attempts = peer.connection_attempts
    second = await bench.connect(five)
    await bench.wait_eor(second, timeout=3)
    await bench.stop()
    expected = {'10.0.1.0/24', '10.0.2.0/24'}
    return report(
        "'passive true' neighbor loses its session, the remote end connects again one second later",
        'no outgoing connection attempt (0), the incoming connection is served: table %s then End-of-RIB' % sorted(expected),
        'outgoing connection attempts after the loss: %d; second session established: %s, %s' % (attempts, second.established, second.describe()),
        attempts > 0 or second.prefixes() != expected,
        'Peer.run() calls _run() -> _establish() -> _connect() whatever session.passive says (only the first start looks at it); the accepted connection waits for that attempt, and _connect() closes it when the attempt fails',
    )


CASES = {
    'two_reloads_while_down': two_reloads_while_down,
    'restart_keeps_removed_route': restart_keeps_removed_route,
    'replaced_while_down': replaced_while_down,
    'range_peers_share_rib': range_peers_share_rib,
    'no_adj_rib_out_withdrawn_while_down': no_adj_rib_out_withdrawn_while_down,
    'no_adj_rib_out_announced_while_down': no_adj_rib_out_announced_while_down,
    'passive_after_loss': passive_after_loss,
}


async def main(names: list[str]) -> int:
    bad = 0
    for name in names:
        RIB._cache.clear()
        try:
            if await asyncio.wait_for(CASES[name](), 60):
                bad += 1
        except Exception as exc:  # a case which cannot run is reported, it does not hide the others
            print('[error] %s: %r' % (name, exc))
            bad += 1
    print('%d of %d cases show a violation' % (bad, len(names)))
    return 1 if bad else 0


if __name__ == '__main__':
    selected = sys.argv[1:] or list(CASES)
    sys.exit(run(main(selected)))
