"""Shared harness for the C11 probes / demos.

Drives the REAL exabgp.reactor.peer.Peer (its _run(): _establish() + _main()) over a real loopback TCP
connection against a small scripted remote BGP speaker living in the same asyncio loop.  The remote speaker
decodes everything it receives with ExaBGP's own decoder and keeps a "peer table" per session so that what the
remote end holds after a (re)establishment can be compared with the intended Adj-RIB-Out.

Nothing in here patches ExaBGP; only the reactor (API processes) is replaced by a stub.
"""

from __future__ import annotations

import asyncio
import os
import socket
import sys

os.environ.setdefault('exabgp_log_enable', 'false')
os.environ.setdefault('exabgp.log.enable', 'false')

from exabgp.environment import getenv  # noqa: E402

getenv().log.enable = False
getenv().log.level = 'CRITICAL'
getenv().bgp.openwait = 5
getenv().api.version = 4

from exabgp.bgp.message import Message  # noqa: E402
from exabgp.bgp.message.direction import Direction  # noqa: E402
from exabgp.bgp.message.open.capability.negotiated import Negotiated  # noqa: E402
from exabgp.bgp.message.update.eor import EOR  # noqa: E402
from exabgp.configuration.configuration import Configuration  # noqa: E402
from exabgp.protocol.family import AFI  # noqa: E402
from exabgp.reactor.network.incoming import Incoming  # noqa: E402
from exabgp.reactor.peer import Peer  # noqa: E402
from exabgp.reactor.protocol import Protocol  # noqa: E402

MARKER = b'\xff' * 16


class _Processes:
    """Stub for reactor.processes: every notification to an API process is accepted and dropped."""

    terminate_on_error = False

    def broken(self, neighbor):
        return False

    def __init__(self):
        self.answers = []

    async def answer_done(self, service, *args, **kwargs):
        self.answers.append('done')

    async def answer_error(self, service, message='', *args, **kwargs):
        self.answers.append('error: %s' % message)

    def answer_done_sync(self, service, *args, **kwargs):
        self.answers.append('done')

    def answer_error_sync(self, service, message='', *args, **kwargs):
        self.answers.append('error: %s' % message)

    async def flush_write_queue(self):
        return None

    def get_sync(self, service):
        return False

    def __getattr__(self, name):
        def _noop(*args, **kwargs):
            return None

        return _noop


def make_reactor(configuration):
    """The REAL Reactor object (never run: no main loop, no listener, no signal handling), stub processes."""
    from exabgp.reactor.loop import Reactor

    reactor = Reactor(configuration)
    reactor.processes = _Processes()
    return reactor


def parse_configuration(text: str) -> Configuration:
    configuration = Configuration([text], text=True)
    if configuration.reload() is not True:
        raise RuntimeError('configuration refused: %s' % configuration.error)
    return configuration


class Session:
    """What the remote speaker saw on ONE session."""

    def __init__(self, number: int) -> None:
        self.number = number
        self.messages = []  # ('announce'|'withdraw'|'eor'|'keepalive'|'notification'|'refresh', detail)
        self.table = {}  # (family, nlri-index) -> description
        self.eor = []  # families, in order
        self.after_eor = []  # announces which arrived after the first EOR of their family
        self.updates = 0  # number of UPDATE messages (EOR excluded)
        self.established = False

    def prefixes(self) -> set:
        return {value[0] for value in self.table.values()}

    def describe(self) -> str:
        return 'session %d: table=%s eor=%s' % (
            self.number,
            sorted(self.prefixes()),
            ['%s/%s' % f for f in self.eor],
        )


class Remote:
    """A scripted BGP speaker: echoes the OPEN it gets (other router-id), then records what it is sent."""

    def __init__(self, peer: Peer) -> None:
        self.peer = peer
        self.sessions: list[Session] = []
        self._sock: socket.socket | None = None
        self._reader_task: asyncio.Task | None = None
        self.cut_after_updates: int | None = None  # drop the connection once that many UPDATEs were received
        self.cut_after_open = False  # drop the connection after the OPEN exchange (before the KEEPALIVE)
        self.negotiated: Negotiated | None = None
        self.open_rewrite = None  # callable(Open): edit the OPEN the remote speaker answers with

    # -- plumbing -----------------------------------------------------------------------------------------

    def attach(self) -> Session:
        """Create a new TCP connection and hand ExaBGP's end to the peer as an incoming connection."""
        listener = socket.socket()
        listener.bind(('127.0.0.1', 0))
        listener.listen(1)
        mine = socket.socket()
        mine.connect(listener.getsockname())
        theirs, _ = listener.accept()
        listener.close()
        mine.setblocking(False)
        self._sock = mine
        connection = Incoming(AFI.ipv4, '127.0.0.1', '127.0.0.1', theirs)
        self.peer.proto = Protocol(self.peer).accept(connection)
        session = Session(len(self.sessions) + 1)
        self.sessions.append(session)
        return session

    async def _read(self, number: int) -> bytes:
        loop = asyncio.get_event_loop()
        data = b''
        while len(data) < number:
            chunk = await loop.sock_recv(self._sock, number - len(data))
            if not chunk:
                raise ConnectionError('closed by exabgp')
            data += chunk
        return data

    async def _read_message(self) -> tuple[int, bytes]:
        header = await self._read(19)
        length = int.from_bytes(header[16:18], 'big')
        body = await self._read(length - 19) if length > 19 else b''
        return header[18], body

    async def _send(self, data: bytes) -> None:
        await asyncio.get_event_loop().sock_sendall(self._sock, data)

    def cut(self) -> None:
        if self._sock is not None:
            try:
                self._sock.close()
            except OSError:
                pass
            self._sock = None

    # -- the remote side of one session -----------------------------------------------------------------------

    async def serve(self, session: Session) -> None:
        try:
            await self._serve(session)
        except (ConnectionError, OSError):
            pass

    async def _serve(self, session: Session) -> None:
        msg, body = await self._read_message()
        assert msg == 1, 'expected OPEN, got %d' % msg
        mine = bytearray(body)
        mine[5:9] = bytes([10, 99, 99, 99])  # another router-id, everything else mirrored
        if self.open_rewrite is not None:
            # the remote speaker's own idea of its capabilities: decode the mirrored OPEN, let the caller edit it, re-encode
            scratch = Negotiated.make_negotiated(self.peer.neighbor, Direction.IN)
            edited = Message.unpack(1, bytes(mine), scratch)
            self.open_rewrite(edited)
            mine = bytearray(edited.pack_message(scratch)[19:])
        raw = MARKER + (19 + len(mine)).to_bytes(2, 'big') + b'\x01' + bytes(mine)
        await self._send(raw)

        # what was negotiated, seen from the remote end (same capabilities both ways)
        sent_open = Message.unpack(1, bytes(body), Negotiated.make_negotiated(self.peer.neighbor, Direction.IN))
        recv_open = Message.unpack(1, bytes(mine), Negotiated.make_negotiated(self.peer.neighbor, Direction.IN))
        negotiated = Negotiated.make_negotiated(self.peer.neighbor, Direction.IN)
        negotiated.sent(recv_open)
        negotiated.received(sent_open)
        self.negotiated = negotiated

        if self.cut_after_open:
            self.cut()
            return

        await self._send(MARKER + b'\x00\x13\x04')
        while True:
            msg, body = await self._read_message()
            if msg == 4:
                break
            if msg == 3:
                session.messages.append(('notification', bytes(body)))
                return
        session.established = True

        if self.cut_after_updates == 0:
            self.cut()
            return

        while True:
            msg, body = await self._read_message()
            if msg == 4:
                session.messages.append(('keepalive', None))
                continue
            if msg == 3:
                session.messages.append(('notification', bytes(body)))
                return
            if msg == 5:
                session.messages.append(('refresh', bytes(body)))
                continue
            if msg != 2:
                session.messages.append(('other-%d' % msg, bytes(body)))
                continue
            self._update(session, bytes(body), negotiated)
            if self.cut_after_updates is not None and session.updates >= self.cut_after_updates:
                self.cut()
                return

    def _update(self, session: Session, body: bytes, negotiated: Negotiated) -> None:
        message = Message.unpack(2, body, negotiated)
        if isinstance(message, EOR):
            family = (message.nlris[0].afi, message.nlris[0].safi)
            session.eor.append(family)
            session.messages.append(('eor', family))
            return
        session.updates += 1
        data = message.data
        for nlri in data.withdraws:
            key = (nlri.family().afi_safi(), nlri.index())
            session.table.pop(key, None)
            session.messages.append(('withdraw', str(nlri)))
        for routed in data.announces:
            nlri = routed.nlri
            family = nlri.family().afi_safi()
            key = (family, nlri.index())
            session.table[key] = (str(nlri), str(routed.nexthop), str(data.attributes))
            session.messages.append(('announce', str(nlri)))
            if family in session.eor:
                session.after_eor.append(str(nlri))


class Dialer(Remote):
    """A remote speaker which CONNECTS to ExaBGP's listener (for passive / range neighbors)."""

    def __init__(self, neighbor, source: str, port: int) -> None:
        class _Holder:
            pass

        holder = _Holder()
        holder.neighbor = neighbor
        Remote.__init__(self, holder)
        self.source = source
        self.port = port

    def dial(self) -> Session:
        mine = socket.socket()
        mine.bind((self.source, 0))
        mine.connect(('127.0.0.1', self.port))
        mine.setblocking(False)
        self._sock = mine
        session = Session(len(self.sessions) + 1)
        self.sessions.append(session)
        return session


class ListenerBench:
    """The real Reactor objects (Listener, peers) driven by a small copy of the reactor's main loop."""

    def __init__(self, text: str) -> None:
        from exabgp.protocol.ip import IP

        self.configuration = parse_configuration(text)
        self.reactor = make_reactor(self.configuration)
        for key, neighbor in self.configuration.neighbors.items():
            self.reactor._peers[key] = Peer(neighbor, self.reactor)
        probe = socket.socket()
        probe.bind(('127.0.0.1', 0))
        self.port = probe.getsockname()[1]
        probe.close()
        assert self.reactor.listener.listen_on(IP.from_string('127.0.0.1'), None, self.port, None, False, None)
        self._loop_task: asyncio.Task | None = None
        self._stop = False
        self._serving = []

    async def _loop(self) -> None:
        reactor = self.reactor
        while not self._stop:
            if reactor.listener.incoming():
                for _ in reactor.listener.new_connections():
                    pass
            await reactor._run_async_peers()
            if reactor.asynchronous._async:
                await reactor.asynchronous._run_async()
            await asyncio.sleep(0.005)

    def start(self) -> None:
        self._loop_task = asyncio.ensure_future(self._loop())

    def dialer(self, source: str, neighbor=None) -> Dialer:
        if neighbor is None:
            neighbor = list(self.configuration.neighbors.values())[0]
        return Dialer(neighbor, source, self.port)

    async def connect(self, dialer: Dialer, cut_after_updates=None) -> Session:
        dialer.cut_after_updates = cut_after_updates
        session = dialer.dial()
        task = asyncio.ensure_future(dialer.serve(session))
        dialer._task = task
        self._serving.append(task)
        return session

    async def hangup(self, dialer: Dialer) -> None:
        task = getattr(dialer, '_task', None)
        if task is not None and not task.done():
            task.cancel()
            try:
                await task
            except (asyncio.CancelledError, Exception):
                pass
        dialer.cut()

    async def wait_eor(self, session: Session, families: int = 1, timeout: float = 5.0) -> None:
        loop = asyncio.get_event_loop()
        end = loop.time() + timeout
        while loop.time() < end and len(session.eor) < families:
            await asyncio.sleep(0.02)
        await asyncio.sleep(0.4)

    async def stop(self) -> None:
        self._stop = True
        for task in self._serving:
            if not task.done():
                task.cancel()
        await asyncio.sleep(0.05)
        for peer in self.reactor._peers.values():
            peer.stop_async_task()
        if self._loop_task is not None:
            try:
                await asyncio.wait_for(self._loop_task, 2)
            except (asyncio.TimeoutError, Exception):
                pass
        self.reactor.listener.stop()
        await asyncio.sleep(0.05)


class Bench:
    """One ExaBGP peer + its scripted remote end."""

    def __init__(self, text: str) -> None:
        self.configuration = parse_configuration(text)
        self.reactor = make_reactor(self.configuration)
        name = list(self.configuration.neighbors)[0]
        self.name = name
        self.neighbor = self.configuration.neighbors[name]
        self.peer = Peer(self.neighbor, self.reactor)
        self.reactor._peers[name] = self.peer
        self.remote = Remote(self.peer)
        self._run_task: asyncio.Task | None = None
        self._serve_task: asyncio.Task | None = None

    @property
    def rib(self):
        return self.peer.neighbor.rib.outgoing

    async def start_session(self, cut_after_updates: int | None = None, cut_after_open: bool = False) -> Session:
        """Give the peer a fresh connection and run Peer._run() on it (in the background)."""
        self.remote.cut_after_updates = cut_after_updates
        self.remote.cut_after_open = cut_after_open
        session = self.remote.attach()
        self._serve_task = asyncio.ensure_future(self.remote.serve(session))
        self._run_task = asyncio.ensure_future(self.peer._run())
        return session

    async def settle(self, session: Session, families: int = 1, timeout: float = 5.0) -> None:
        """Wait until the remote end has its End-of-RIB(s) and nothing more arrives for a while."""
        loop = asyncio.get_event_loop()
        end = loop.time() + timeout
        while loop.time() < end:
            if len(session.eor) >= families and not self.rib.pending():
                break
            if self._run_task.done():
                break
            await asyncio.sleep(0.02)
        seen = -1
        quiet = 0
        while quiet < 8 and loop.time() < end + 2:
            await asyncio.sleep(0.03)
            if len(session.messages) == seen and not self.rib.pending():
                quiet += 1
            else:
                quiet = 0
            seen = len(session.messages)

    async def wait_down(self, timeout: float = 5.0) -> None:
        """Wait until Peer._run() has returned (the session is over and _reset() has run)."""
        try:
            await asyncio.wait_for(asyncio.shield(self._run_task), timeout)
        except asyncio.TimeoutError:
            raise RuntimeError('Peer._run() did not end') from None
        if self._serve_task is not None:
            await asyncio.wait([self._serve_task], timeout=1)

    async def drop(self) -> None:
        """The remote end closes the connection; wait for ExaBGP to notice."""
        await self._end_serve()
        self.remote.cut()
        await self.wait_down()

    async def _end_serve(self) -> None:
        if self._serve_task is not None and not self._serve_task.done():
            self._serve_task.cancel()
            try:
                await self._serve_task
            except (asyncio.CancelledError, Exception):
                pass

    async def stop(self) -> None:
        await self._end_serve()
        self.remote.cut()
        if self._run_task is not None and not self._run_task.done():
            try:
                await asyncio.wait_for(self._run_task, 3)
            except (asyncio.TimeoutError, Exception):
                self._run_task.cancel()

    # -- API-like operations (what 'announce route' / 'withdraw route' end up calling) ------------------------

    async def api(self, command: str) -> str:
        """One line of the text API, through the real dispatcher and the real command handlers."""
        self.reactor.processes.answers = []
        self.reactor.api.process(self.reactor, 'api-internal-cli-probe', command)
        await self.reactor.asynchronous._run_async()
        answers = self.reactor.processes.answers
        return answers[-1] if answers else ''

    def intended(self) -> set:
        """Prefixes of the Adj-RIB-Out as ExaBGP keeps it (the cache)."""
        return {str(route.nlri) for route in self.rib.cached_routes(None)}


def run(coroutine) -> object:
    loop = asyncio.new_event_loop()
    asyncio.set_event_loop(loop)
    try:
        return loop.run_until_complete(coroutine)
    finally:
        try:
            pending = [task for task in asyncio.all_tasks(loop) if not task.done()]
            for task in pending:
                task.cancel()
            if pending:
                loop.run_until_complete(asyncio.gather(*pending, return_exceptions=True))
            loop.run_until_complete(loop.shutdown_asyncgens())
        finally:
            loop.close()


BASE = """
neighbor 127.0.0.1 {
    router-id 10.0.0.1;
    local-address 127.0.0.1;
    local-as 65000;
    peer-as 65000;
    hold-time 180;
    %(options)s
    capability {
        %(capability)s
    }
    family {
        %(family)s
    }
    %(body)s
}
"""


def config(body: str = '', family: str = 'ipv4 unicast;', options: str = '', capability: str = 'graceful-restart 120;') -> str:
    return BASE % {'body': body, 'family': family, 'options': options, 'capability': capability}


def static(*routes: str) -> str:
    return 'static {\n' + '\n'.join('        route %s;' % route for route in routes) + '\n    }'


if __name__ == '__main__':
    print('harness only', file=sys.stderr)
