"""Snapshot every class-level / module-level mutable object of exabgp before and after decoding+rendering the corpus."""
import sys, types
sys.path.insert(0, '/tmp/obs_C19/_out')
import c19_harness as H
from corpus import corpus
import exabgp.reactor.api.response, exabgp.reactor.peer.handlers.update, exabgp.bgp.message

def describe(v, depth=0):
    if isinstance(v, (str, bytes, int, float, bool, type(None))): return repr(v)[:200]
    if isinstance(v, (list, tuple)): return type(v).__name__ + '[' + ','.join(describe(x, depth+1) for x in v[:50]) + (']#%d' % len(v))
    if isinstance(v, (set, frozenset)): return 'set#%d{' % len(v) + ','.join(sorted(describe(x, depth+1) for x in list(v)[:50])) + '}'
    if isinstance(v, dict): return 'dict#%d{' % len(v) + ','.join(sorted('%s:%s' % (describe(k, depth+1), describe(x, depth+1)) for k, x in list(v.items())[:200])) + '}'
    if isinstance(v, (type, types.FunctionType, types.ModuleType, types.MethodType, classmethod, staticmethod, property)): return '<%s>' % getattr(v, '__name__', type(v).__name__)
    mod = getattr(type(v), '__module__', '')
    if mod.startswith('exabgp') and depth < 3:
        d = {}
        if hasattr(v, '__dict__'): d.update(vars(v))
        for klass in type(v).__mro__:
            for s in getattr(klass, '__slots__', ()):
                if hasattr(v, s): d[s] = getattr(v, s)
        return '%s(%s)' % (type(v).__name__, ','.join('%s=%s' % (k, describe(x, depth+1)) for k, x in sorted(d.items())))
    return '<%s>' % type(v).__name__

def snapshot():
    snap = {}
    for name, mod in list(sys.modules.items()):
        if not name.startswith('exabgp') or mod is None: continue
        for k, v in list(vars(mod).items()):
            if k.startswith('__'): continue
            if isinstance(v, type) and v.__module__ == name:
                for a, x in list(vars(v).items()):
                    if a.startswith('__') and a.endswith('__'): continue
                    if isinstance(x, (types.FunctionType, classmethod, staticmethod, property, type)): continue
                    snap['%s.%s.%s' % (name, k, a)] = describe(x)
            elif not isinstance(v, (type, types.FunctionType, types.ModuleType)):
                snap['%s.%s' % (name, k)] = describe(v)
    return snap

S=[
 {'name':'A','peer_ip':'10.0.0.2','asn4':True},
 {'name':'B','peer_ip':'10.0.0.3','asn4':False,'peer_as':65501},
 {'name':'C','peer_ip':'10.0.0.4','asn4':True,'addpath':['ipv4 unicast','ipv6 unicast','ipv4 nlri-mpls','ipv6 nlri-mpls','ipv4 mpls-vpn','ipv6 mpls-vpn']},
 {'name':'D','peer_ip':'10.0.0.5','asn4':True,'nexthop':True,'aigp':True,'peer_as':65502},
]
negs=[H.make_session(s) for s in S]   # created before the snapshot so that neighbor counters do not show
before = snapshot()
steps=[]
for n,h in corpus():
    for s in S:
        steps.append({'session':s['name'],'body':h,'post':['rib','showrib','outgoing','pack']})
H.run(S, steps)
after = snapshot()
for k in sorted(set(before)|set(after)):
    if before.get(k) != after.get(k):
        print('CHANGED', k)
        print('   before:', (before.get(k) or '')[:300])
        print('   after :', (after.get(k) or '')[:300])
