"""C19 baseline probe. Run:  cd /tmp/obs_C19 && PYTHONPATH=/tmp/obs_C19/src /venv/bin/python _out/baseline_probe.py
One line per case; exit 1 if any violation reproduces.  (C19_FULL=1 sweeps the whole corpus instead of a third of it.)"""
import json
import os
import subprocess
import sys

os.environ.setdefault('exabgp_log_enable', 'false')
HERE = os.path.dirname(os.path.abspath(__file__))
sys.path.insert(0, HERE)

import c19_harness as H  # noqa: E402
from corpus import corpus  # noqa: E402

VIOLATIONS = 0


def report(tag: str, violated: bool, text: str) -> None:
    global VIOLATIONS
    if violated:
        VIOLATIONS += 1
    print('%-9s %s: %s' % ('VIOLATION' if violated else 'ok', tag, text))
    sys.stdout.flush()


def sub(script: str, *args: str, env: dict | None = None) -> str:
    e = dict(os.environ, PYTHONPATH=H.SRC)
    e.update(env or {})
    p = subprocess.run([sys.executable, os.path.join(HERE, script), *args], capture_output=True, text=True, env=e, timeout=300)
    if p.returncode not in (0, 1):
        raise RuntimeError(p.stderr[-1500:])
    return p.stdout


ATTRS = '40010100' + '40020602010000ffdd' + '400304' + '0a000009'
BODY_A = '0000%04x%s18c00002' % (len(ATTRS) // 2, ATTRS)  # announce 192.0.2.0/24
BODY_B = '0000%04x%s18c63364' % (len(ATTRS) // 2, ATTRS)  # announce 198.51.100.0/24
BODY_WA = '000418c000020000'  # withdraw 192.0.2.0/24


# ------------------------------------------------------------------ V1: peers accepted from a neighbor range
def case_range() -> None:
    out = json.loads(sub('range_probe.py', '--json'))
    report(
        'V1a range-neighbor API address',
        out['alone_json'] != out['both_json'],
        'UPDATE %s from 10.0.0.10: alone -> %s ; after a 2nd peer (10.0.0.11) of the same range connected -> %s'
        % (BODY_A, out['alone_addr'], out['both_addr']),
    )
    report(
        'V1b range-neighbor JSON counter',
        out['counter_second_peer_first_message'] != 1,
        'first UPDATE of the 2nd peer has "counter": %s (fresh process: 1); uids of the two neighbors %s'
        % (out['counter_second_peer_first_message'], out['uids']),
    )
    report(
        'V1c range-neighbor Adj-RIB-In',
        out['rib_peer1_after_peer2_announce'] != out['rib_peer1_alone'] or out['rib_peer1_after_peer2_withdraw'] != out['rib_peer1_alone'],
        'adj-rib-in of peer1 after its own announce: %s ; after peer2 announced %s: %s ; after peer2 withdrew peer1\'s prefix: %s'
        % (out['rib_peer1_alone'], '198.51.100.0/24', out['rib_peer1_after_peer2_announce'], out['rib_peer1_after_peer2_withdraw']),
    )


# ------------------------------------------------------------------ V2: the JSON counter is one class-level dict
def case_counter() -> None:
    S = [{'name': 'A', 'peer_ip': '10.0.0.2', 'asn4': True}]
    alone = H.fresh(S, {'session': 'A', 'body': BODY_A, 'order': ['json6']})
    with_text = H.fresh(S, {'session': 'A', 'body': BODY_A, 'order': ['text4', 'json6']})
    report(
        'V2a JSON counter / second encoder',
        alone['counter'] != with_text['counter'],
        'first UPDATE of a session, v6 JSON "counter": %s when the JSON process is alone, %s when an API v4 text process '
        'reads the same neighbor (V4Text.update runs a JSON encoder; JSON._count is shared by every encoder instance)'
        % (alone['counter'], with_text['counter']),
    )
    quiet = json.loads(sub('logcounter_probe.py').strip().splitlines()[-1])
    debug = json.loads(sub('logcounter_probe.py', env={'C19_DEBUG': '1', 'exabgp_log_enable': 'true'}).strip().splitlines()[-1])
    report(
        'V2b JSON counter / parser debug log',
        quiet != debug,
        'counters of two UPDATEs: %s without logging, %s with log level DEBUG + parser (Update.unpack_message.log_parsed renders '
        'the update with a JSON encoder of its own, which counts on the same dict)' % (quiet, debug),
    )


# ------------------------------------------------------------------ what was found correct (differential sweeps)
SESSIONS = [
    {'name': 'A', 'peer_ip': '10.0.0.2', 'asn4': True},
    {'name': 'B', 'peer_ip': '10.0.0.3', 'asn4': False, 'peer_as': 65501},
    {'name': 'C', 'peer_ip': '10.0.0.4', 'asn4': True,
     'addpath': ['ipv4 unicast', 'ipv6 unicast', 'ipv4 nlri-mpls', 'ipv6 nlri-mpls', 'ipv4 mpls-vpn', 'ipv6 mpls-vpn']},
    {'name': 'D', 'peer_ip': '10.0.0.5', 'asn4': True, 'nexthop': True, 'aigp': True, 'peer_as': 65502},
    {'name': 'E', 'peer_ip': '10.0.0.6', 'asn4': False, 'aigp': True, 'addpath': ['ipv4 unicast', 'ipv6 unicast']},
]


def crafted() -> list[tuple[str, str]]:
    def body(attrs: str, nlri: str = '18c00002', wd: str = '') -> str:
        return '%04x%s%04x%s%s' % (len(wd) // 2, wd, len(attrs) // 2, attrs, nlri)

    o, nh = '40010100', '4003040a000009'
    as2 = '4002040201ffdd'
    as4 = '40020602010000ffdd'
    astrans = '40020602015ba0fde8' + 'c0110e02030001000000020000' + '0000fde8'  # AS_PATH [23456 65000] + AS4_PATH of 3 (ignored)
    merge = '4002060202' + '5ba0' + 'fde8' + 'c0110a0202' + '00010001' + '0000fde8'
    agg6 = 'c00706fde80a000001'
    agg8 = 'c007080000fde80a000001'
    aigp = '801a0b01000b000000000000000a'
    ext = 'c010080002fde800000001'
    lc = 'c0200c0000fde80000000100000002'
    com = 'c00804fde80001'
    unk = 'c0630401020304'
    return [
        ('as2', body(o + as2 + nh)), ('as4', body(o + as4 + nh)), ('merge', body(o + merge + nh)), ('astrans', body(o + astrans + nh)),
        ('agg6', body(o + as4 + nh + agg6)), ('agg8', body(o + as4 + nh + agg8)), ('agg6/2', body(o + as2 + nh + agg6)),
        ('aigp', body(o + as4 + nh + aigp)), ('aigp/2', body(o + as2 + nh + aigp)),
        ('ext', body(o + as4 + nh + ext)), ('ext+lc+com', body(o + as4 + nh + com + ext + lc)), ('unknown', body(o + as4 + nh + unk)),
        ('addpath-nlri', body(o + as4 + nh, '0000000118c00002')), ('attr-only', body(o + as4 + nh, '')),
        ('wd+ann', body(o + as4 + nh, '18c00002', '18c00002')), ('wd', body('', '', '18c00002')),
        ('origin-bad', body('40010105' + as4 + nh)), ('no-nexthop', body(o + as4)), ('eor', '00000000'),
        ('eor6', '00000007900f0003000201'),
    ]


def case_sweep() -> None:
    import random

    oracle = H.Oracle()
    rnd = random.Random(19)
    full = bool(os.environ.get('C19_FULL'))
    msgs = crafted() + [m for i, m in enumerate(corpus()) if full or i % 3 == 0]
    posts = ['rib', 'showrib', 'outgoing', 'pack']
    steps = []
    # every message on every session, back to back (the attribute cache is hit), then interleaved at random
    by_name = {s['name']: s for s in SESSIONS}
    for name, h in msgs:
        # A then C then A share (asn4, aigp): the cached AttributeCollection is handed from one session to the other;
        # B B, D D, E E: handed to the next message of the same session
        for s in [by_name[n] for n in 'ACABBDDEE']:
            steps.append({'session': s['name'], 'body': h, 'src': name, 'post': [p for p in posts if rnd.random() < 0.7]})
    extra = [dict(s) for s in rnd.sample(steps, len(steps) // 2)]
    steps += extra
    res = H.run(SESSIONS, steps)
    bad = []
    for st, r in zip(steps, res):
        d = H.diff(r, oracle.ask(SESSIONS, st))
        if d:
            bad.append((st['session'], st['src'], st['body'], d, r))
    # anything the in-process oracle flags is confirmed against a real fresh interpreter
    confirmed = [(s, n, b, d) for (s, n, b, d, r) in bad[:5] if H.diff(r, H.fresh(SESSIONS, {'session': s, 'body': b}))]
    report(
        'C1 differential sweep',
        bool(bad),
        '%d decodes (%d messages on %d sessions, back to back so that the attribute cache is hit, and interleaved: asn4 on/off, add-path on/off, ext-nexthop, aigp on/off, iBGP/eBGP; each followed '
        'by Adj-RIB-In store / show / outgoing RIB + resolve_self / pack) -> %d differ from the pristine-process decode%s'
        % (len(steps), len(msgs), len(SESSIONS), len(bad), ''.join('\n      %s %s %s %s' % (s, n, b[:80], json.dumps(d)[:300]) for s, n, b, d in confirmed)),
    )
    # encoder order: each encoder alone in a pristine process versus after the two others rendered the same objects
    bad = 0
    count = 0
    for order in (('text4', 'json4', 'json6'), ('json4', 'json6', 'text4'), ('json6', 'text4', 'json4')):
        st2 = [{'session': SESSIONS[i % len(SESSIONS)]['name'], 'body': h, 'order': list(order)} for i, (_, h) in enumerate(msgs)]
        for st, r in zip(st2, H.run(SESSIONS, st2)):
            for enc in order:
                count += 1
                if enc in r and r[enc] != oracle.ask(SESSIONS, {'session': st['session'], 'body': st['body'], 'order': [enc]}).get(enc):
                    bad += 1
    report('C2 encoder order', bool(bad), '%d renderings (v6 JSON, v4 JSON, v4 text in three orders) -> %d differ from the encoder run alone' % (count, bad))
    # a real new interpreter for a handful of the cached-attribute cases
    bad = 0
    steps = [{'session': s['name'], 'body': h} for _, h in crafted()[:12] for s in SESSIONS[:3]]
    for st, r in zip(steps, H.run(SESSIONS, steps)):
        if H.diff(r, H.fresh(SESSIONS, st)):
            bad += 1
    report('C3 fresh interpreter', bool(bad), '%d crafted decodes in sequence versus one new interpreter each -> %d differ' % (len(steps), bad))


if __name__ == '__main__':
    case_range()
    case_counter()
    case_sweep()
    print('violations reproduced:', VIOLATIONS)
    sys.exit(1 if VIOLATIONS else 0)
