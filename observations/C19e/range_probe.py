"""Two peers accepted from one neighbor range (`neighbor 10.0.0.0/24 { ... }`): Listener.new_connections() (the real code,
driven with two fake incoming connections and a stub Peer) builds their Neighbor with copy.copy(), a SHALLOW copy, then
writes the addresses of the connection into new_neighbor.session -- the Session object of the template and of every other
peer of the range.  uid (the JSON counter key) and rib (Adj-RIB-In) are shared the same way."""
import json
import os
import sys
from collections import defaultdict

os.environ.setdefault('exabgp_log_enable', 'false')
sys.path.insert(0, os.path.dirname(os.path.abspath(__file__)))
import c19_harness as H  # noqa: E402
import exabgp.reactor.listener as L  # noqa: E402
from exabgp.bgp.message import Message  # noqa: E402
from exabgp.bgp.message.direction import Direction  # noqa: E402
from exabgp.bgp.message.open.capability.negotiated import Negotiated  # noqa: E402
from exabgp.reactor.peer.handlers.update import UpdateHandler  # noqa: E402

ATTRS = '40010100' + '40020602010000ffdd' + '400304' + '0a000009'
BODY_A = bytes.fromhex('0000%04x%s18c00002' % (len(ATTRS) // 2, ATTRS))  # announce 192.0.2.0/24
BODY_B = bytes.fromhex('0000%04x%s18c63364' % (len(ATTRS) // 2, ATTRS))  # announce 198.51.100.0/24
BODY_WA = bytes.fromhex('000418c000020000')  # withdraw 192.0.2.0/24


def accept(n_connections):
    tmpl_neg = H.make_session({'name': 'range', 'peer_ip': '10.0.0.0', 'local_ip': '10.9.9.9', 'asn4': True})
    tmpl = tmpl_neg.neighbor
    tmpl.range_size = 256
    made = []

    class StubPeer:
        def __init__(self, neighbor, reactor):
            self.neighbor = neighbor
            made.append(neighbor)

        def handle_connection(self, connection):
            return None

    class StubReactor:
        def __init__(self):
            self.p = {'range': tmpl}

        def peers(self):
            return list(self.p)

        def neighbor(self, key):
            return self.p[key]

        def register_peer(self, name, peer):
            self.p[name] = peer.neighbor

        def handle_connection(self, key, connection):
            return None

    class Conn:  # what Incoming offers to new_connections(): .local is the address of the remote peer
        def __init__(self, local, peer):
            self.local, self.peer = local, peer

        def name(self):
            return 'incoming %s-%s' % (self.local, self.peer)

    L.Peer = StubPeer
    listener = L.Listener.__new__(L.Listener)
    listener.serving = True
    listener._reactor = StubReactor()
    for i in range(n_connections):
        conn = Conn('10.0.0.%d' % (10 + i), '10.9.9.9')
        listener._connected = lambda conn=conn: iter([conn])
        for _ in listener.new_connections():
            pass
    negs = []
    for neighbor in made:  # what Protocol.__init__ does for each connection
        neg = Negotiated.make_negotiated(neighbor, Direction.IN)
        neg.sent(tmpl_neg.sent_open)
        neg.received(tmpl_neg.received_open)
        negs.append(neg)
    return negs


def receive(neg, body):
    msg = Message.unpack(2, body, neg)
    out = H.render(neg, msg, ('json6',))

    class Ctx:
        pass

    ctx = Ctx()
    ctx.neighbor, ctx.negotiated, ctx.peer_id, ctx.stats = neg.neighbor, neg, 'p', defaultdict(int)
    for _ in UpdateHandler().handle(ctx, msg):
        pass
    return out


def rib(neg):
    return sorted(r.extensive() for r in neg.neighbor.rib.incoming.cached_routes())


def address(text):
    return text[text.index('"address"'):text.index('"asn"')].strip(' ,')


def main():
    # reference: the first peer is the only one of the range to connect
    (p1,) = accept(1)
    alone = receive(p1, BODY_A)
    rib_alone = rib(p1)
    # same, but a second peer of the range connects before the first one sends its UPDATE
    p1, p2 = accept(2)
    both = receive(p1, BODY_A)
    second = receive(p2, BODY_B)
    rib_after_announce = rib(p1)
    receive(p2, BODY_WA)
    rib_after_withdraw = rib(p1)
    out = {
        'alone_json': alone['json6'], 'both_json': both['json6'],
        'alone_addr': address(alone['json6']), 'both_addr': address(both['json6']),
        'counter_second_peer_first_message': second['counter'],
        'uids': [p1.neighbor.uid, p2.neighbor.uid],
        'same_session_object': p1.neighbor.session is p2.neighbor.session,
        'same_rib_object': p1.neighbor.rib is p2.neighbor.rib,
        'rib_peer1_alone': rib_alone,
        'rib_peer1_after_peer2_announce': rib_after_announce,
        'rib_peer1_after_peer2_withdraw': rib_after_withdraw,
    }
    if '--json' in sys.argv:
        print(json.dumps(out))
    else:
        for k, v in out.items():
            print(k, ':', str(v)[:220])


if __name__ == '__main__':
    main()
