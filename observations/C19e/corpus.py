import re, glob, os
ROOT='/tmp/obs_C19'
def corpus():
    out=[]
    for f in sorted(glob.glob(ROOT+'/qa/encoding/*')):
        for m in re.finditer(r':raw:[0-9A-Fa-f]{32}:([0-9A-Fa-f]{4}):02:([0-9A-Fa-f]+)', open(f,errors='replace').read()):
            out.append((os.path.basename(f), m.group(2).lower()))
    for f in sorted(glob.glob(ROOT+'/qa/decoding/*')):
        lines=open(f).read().splitlines()
        if len(lines)>1 and lines[0].startswith('update'):
            h=lines[1].strip().replace(':','').lower()
            if h.startswith('ff'*16): h=h[38:]
            out.append((os.path.basename(f), h))
    seen=set(); res=[]
    for n,h in out:
        if h not in seen:
            seen.add(h)
            if len(h)%2==0: res.append((n,h))
    return res
if __name__=='__main__':
    c=corpus(); print(len(c))
