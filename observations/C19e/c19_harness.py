"""Harness for the C19 baseline probe: decode BGP UPDATE bodies on sessions negotiated from real OPEN messages and
render them with the real API encoders (v6 JSON, v4 JSON, v4 text), in this process or in a fresh one.

A "session" is a dict:
  {name, local_as, peer_as, asn4, addpath (list of 'afi safi' strings), aigp, nexthop, extmsg, adjribin}
A "step" is a dict:
  {session: <name>, body: <hex of the UPDATE body>, post: [names of post-decode processing to run after rendering]}

run(sessions, steps) returns one observation dict per step.
fresh(sessions, step) runs ONE step in a new interpreter and returns its observation.
"""

from __future__ import annotations

import json
import os
import re
import subprocess
import sys

os.environ.setdefault('exabgp_log_enable', 'false')

HERE = os.path.dirname(os.path.abspath(__file__))
SRC = os.path.join(os.path.dirname(HERE), 'src')


def _imports():
    from exabgp.bgp.message import Message, Update  # noqa
    from exabgp.bgp.message.direction import Direction
    from exabgp.bgp.message.open import Open, Version
    from exabgp.bgp.message.open.asn import ASN
    from exabgp.bgp.message.open.capability import Capabilities
    from exabgp.bgp.message.open.capability.negotiated import Negotiated
    from exabgp.bgp.message.open.holdtime import HoldTime
    from exabgp.bgp.message.open.routerid import RouterID
    from exabgp.bgp.message.update.nlri import NLRI
    from exabgp.bgp.neighbor import Neighbor
    from exabgp.bgp.neighbor.capability import TriState
    from exabgp.protocol.family import AFI, SAFI
    from exabgp.protocol.ip import IPv4

    return locals()


_SESSIONS: dict = {}


def make_session(spec: dict):
    m = _imports()
    Neighbor, TriState, ASN, RouterID, IPv4, HoldTime = (
        m['Neighbor'],
        m['TriState'],
        m['ASN'],
        m['RouterID'],
        m['IPv4'],
        m['HoldTime'],
    )
    AFI, SAFI = m['AFI'], m['SAFI']
    n = Neighbor()
    n.description = spec['name']
    n.session.router_id = RouterID('10.0.0.1')
    n.session.local_address = IPv4.from_string(spec.get('local_ip', '10.0.0.1'))
    n.session.peer_address = IPv4.from_string(spec.get('peer_ip', '10.0.0.2'))
    n.host_name = 'localhost'
    n.domain_name = 'localdomain'
    n.session.peer_as = ASN(spec.get('peer_as', 65500))
    n.session.local_as = ASN(spec.get('local_as', 65500))
    n.hold_time = HoldTime(180)
    for family in m['NLRI'].known_families():
        n.add_family(family)
    n.capability.asn4 = TriState.TRUE if spec.get('asn4', True) else TriState.FALSE
    n.capability.extended_message = TriState.TRUE if spec.get('extmsg', False) else TriState.FALSE
    if spec.get('aigp') is not None:
        n.capability.aigp = TriState.TRUE if spec['aigp'] else TriState.FALSE
    if spec.get('nexthop'):
        n.capability.nexthop = TriState.TRUE
        for safi in (SAFI.unicast, SAFI.multicast, SAFI.nlri_mpls, SAFI.mpls_vpn):
            n.add_nexthop(AFI.ipv4, safi, AFI.ipv6)
    if spec.get('addpath'):
        n.capability.add_path = 3
        for text in spec['addpath']:
            a, s = text.split()
            n.add_addpath((AFI.from_string(a), SAFI.from_string(s)))
    n.adj_rib_in = spec.get('adjribin', True)
    try:
        n.make_rib()
    except Exception:  # pragma: no cover - reported by the caller through missing rib
        pass

    capa_local = m['Capabilities']().new(n, False)
    # the peer sends the same capabilities (its own AS in ASN4)
    peer = Neighbor()
    peer.session.local_as = n.session.peer_as
    peer.session.peer_as = n.session.local_as
    peer.host_name = 'peer'
    peer.domain_name = 'localdomain'
    for family in m['NLRI'].known_families():
        peer.add_family(family)
    peer.capability = n.capability.copy()
    for fam in n.addpaths():
        if fam not in peer.addpaths():
            peer.add_addpath(fam)
    for nh in n.nexthops():
        if nh not in peer.nexthops():
            peer.add_nexthop(*nh)
    capa_peer = m['Capabilities']().new(peer, False)

    def open_as(asn):
        from exabgp.bgp.message.open.asn import AS_TRANS

        return ASN(asn) if asn < 65536 else AS_TRANS

    o1 = m['Open'].make_open(m['Version'](4), open_as(n.session.local_as), HoldTime(180), RouterID('10.0.0.1'), capa_local)
    o2 = m['Open'].make_open(m['Version'](4), open_as(n.session.peer_as), HoldTime(180), RouterID('10.0.0.2'), capa_peer)
    neg = m['Negotiated'].make_negotiated(n, m['Direction'].IN)
    neg.sent(o1)
    neg.received(o2)
    return neg


_STRIP = [
    (re.compile(r'"time": [0-9.]+, '), ''),
    (re.compile(r'"host" : "[^"]*", '), ''),
    (re.compile(r'"pid" : \d+, '), ''),
    (re.compile(r'"ppid" : \d+, '), ''),
]
_COUNTER = re.compile(r'"counter": (\d+), ')


def _clean(text: str, keep_counter: bool = False) -> str:
    for rx, by in _STRIP:
        text = rx.sub(by, text)
    if not keep_counter:
        text = _COUNTER.sub('', text)
    return text


_ENC: dict = {}


def encoders():
    if not _ENC:
        from exabgp.reactor.api.response import Response
        from exabgp.version import json as jv, json_v4, text_v4

        _ENC['json6'] = Response.JSON(jv)
        _ENC['json4'] = Response.V4.JSON(json_v4)
        _ENC['text4'] = Response.V4.Text(text_v4)
    return _ENC


def render(neg, message, order=('json6', 'json4', 'text4')) -> dict:
    from exabgp.bgp.message import Update

    out: dict = {}
    if getattr(message, 'IS_EOR', False):
        data = message
    elif isinstance(message, Update):
        data = message.data
    else:
        return {'other': type(message).__name__}
    for name in order:
        try:
            text = encoders()[name].update(neg.neighbor, 'receive', data, b'', b'', neg)
            out[name] = _clean(text)
            if name == 'json6':
                c = _COUNTER.search(text)
                out['counter'] = int(c.group(1)) if c else None
        except Exception as exc:  # noqa: BLE001
            out[name] = 'EXC %s: %s' % (type(exc).__name__, exc)
    # the decoded objects themselves
    if not getattr(message, 'IS_EOR', False):
        try:
            out['announces'] = [
                '%s|%s|nh=%s|idx=%s' % (type(r.nlri).__name__, r.nlri.extensive(), r.nexthop, r.nlri.index().hex())
                for r in data.announces
            ]
            out['withdraws'] = ['%s|%s|idx=%s' % (type(n).__name__, n.extensive(), n.index().hex()) for n in data.withdraws]
            out['attr_keys'] = sorted(data.attributes.keys())
            out['attr_str'] = str(data.attributes)
            out['attr_idx'] = data.attributes.index().decode('latin-1')
            out['attr_each'] = {
                str(k): '%s:%s:%s' % (type(v).__name__, v.ID, _safe_str(v)) for k, v in sorted(data.attributes.items())
            }
            out['attr_json_nh'] = data.attributes.json(include_nexthop=True)
            out['attr_json_generic'] = data.attributes.json(generic=True)
        except Exception as exc:  # noqa: BLE001
            out['objects'] = 'EXC %s: %s' % (type(exc).__name__, exc)
    return out


def _safe_str(v) -> str:
    try:
        return str(v)
    except Exception as exc:  # noqa: BLE001
        return 'EXC %s' % exc


# ---------------------------------------------------------------- post-decode processing


def post_rib(neg, message) -> None:
    """What reactor/peer/handlers/update.py does."""
    from exabgp.reactor.peer.handlers.update import UpdateHandler

    class Ctx:
        pass

    ctx = Ctx()
    ctx.neighbor = neg.neighbor
    ctx.negotiated = neg
    ctx.peer_id = 'peer'
    from collections import defaultdict

    ctx.stats = defaultdict(int)
    for _ in UpdateHandler().handle(ctx, message):
        pass


def post_show_rib(neg, message) -> None:
    """Render what is in the Adj-RIB-In the way `show adj-rib in` does (extensive and json)."""
    rib = neg.neighbor.rib.incoming
    for route in rib.cached_routes():
        route.extensive()
        route.attributes.json()
        route.attributes.index()
        try:
            route.nlri.json()
        except Exception:  # noqa: BLE001
            pass


def post_outgoing(neg, message) -> None:
    """The outgoing RIB of the same neighbor takes the routes with the same attribute object, and packs them."""
    from exabgp.bgp.message import Update
    from exabgp.rib.route import Route

    if not isinstance(message, Update):
        return
    data = message.data
    out = neg.neighbor.rib.outgoing
    for routed in data.announces:
        route = Route(routed.nlri, data.attributes, nexthop=routed.nexthop)
        route = neg.neighbor.resolve_self(route)
        out.add_to_rib(route, force=True)
    for upd in out.updates(False):
        for _ in upd.messages(neg):
            pass


def post_pack(neg, message) -> None:
    from exabgp.bgp.message import Update

    if isinstance(message, Update):
        for _ in message.data.messages(neg):
            pass
        message.data.attributes.pack_attribute(neg)


def post_merge_extcom(neg, message) -> None:
    """A later configuration/API step adding an extended community to 'its' attributes: AttributeCollection.add()."""
    from exabgp.bgp.message import Update
    from exabgp.bgp.message.update.attribute.community.extended.communities import ExtendedCommunities
    from exabgp.bgp.message.update.attribute.community.extended.community import ExtendedCommunity

    if isinstance(message, Update):
        extra = ExtendedCommunities.make_extended_communities(
            [ExtendedCommunity.unpack_attribute(bytes.fromhex('0002fde800000063'), neg)]
        )
        message.data.attributes.add(extra)


POST = {
    'rib': post_rib,
    'showrib': post_show_rib,
    'outgoing': post_outgoing,
    'pack': post_pack,
    'merge_extcom': post_merge_extcom,
}


def run(sessions: list[dict], steps: list[dict], order=('json6', 'json4', 'text4')) -> list[dict]:
    from exabgp.bgp.message import Message
    from exabgp.bgp.message.notification import Notify

    negs = {s['name']: make_session(s) for s in sessions}
    results = []
    for step in steps:
        neg = negs[step['session']]
        body = bytes.fromhex(step['body'])
        try:
            message = Message.unpack(2, body, neg)
        except Notify as exc:
            results.append({'notify': '%s/%s %s' % (exc.code, exc.subcode, exc)})
            continue
        except Exception as exc:  # noqa: BLE001
            results.append({'exception': '%s: %s' % (type(exc).__name__, exc)})
            continue
        obs = render(neg, message, tuple(step.get('order', order)))
        results.append(obs)
        for name in step.get('post', []):
            try:
                POST[name](neg, message)
            except Exception as exc:  # noqa: BLE001
                obs.setdefault('post_errors', []).append('%s: %s: %s' % (name, type(exc).__name__, exc))
    return results


_FRESH_CACHE: dict = {}


def fresh(sessions: list[dict], step: dict, order=('json6', 'json4', 'text4')) -> dict:
    sess = [s for s in sessions if s['name'] == step['session']]
    one = {'session': step['session'], 'body': step['body'], 'order': list(step.get('order', order))}
    key = json.dumps([sess, one], sort_keys=True)
    if key not in _FRESH_CACHE:
        env = dict(os.environ, PYTHONPATH=SRC, exabgp_log_enable='false')
        proc = subprocess.run(
            [sys.executable, os.path.abspath(__file__), '--fresh'],
            input=key,
            capture_output=True,
            text=True,
            env=env,
            timeout=120,
        )
        if proc.returncode != 0:
            raise RuntimeError('fresh process failed: ' + proc.stderr[-2000:])
        _FRESH_CACHE[key] = json.loads(proc.stdout.strip().splitlines()[-1])
    return _FRESH_CACHE[key]


IGNORED_KEYS = {'counter', 'post_errors'}


def diff(a: dict, b: dict) -> dict:
    out = {}
    for k in sorted(set(a) | set(b)):
        if k in IGNORED_KEYS:
            continue
        if a.get(k) != b.get(k):
            out[k] = (a.get(k), b.get(k))
    return out


if __name__ == '__main__':
    if '--fresh' in sys.argv:
        sess, one = json.loads(sys.stdin.read())
        res = run(sess, [one])
        print(json.dumps(res[0]))


class Oracle:
    """A pristine copy of this process (forked before anything was decoded) which answers each request in a
    forked child of its own: the state a message is decoded in is the state of a fresh process after import.
    Used to sweep many cases quickly; every violation reported is re-checked with fresh() (a real new interpreter)."""

    def __init__(self) -> None:
        import exabgp.reactor.api.response  # noqa: F401  (everything imported before the fork)
        import exabgp.reactor.peer.handlers.update  # noqa: F401
        import exabgp.bgp.message  # noqa: F401

        r1, w1 = os.pipe()
        r2, w2 = os.pipe()
        pid = os.fork()
        if pid == 0:
            os.close(w1)
            os.close(r2)
            self._serve(os.fdopen(r1, 'r'), os.fdopen(w2, 'w'))
            os._exit(0)
        os.close(r1)
        os.close(w2)
        self.req = os.fdopen(w1, 'w')
        self.res = os.fdopen(r2, 'r')
        self.memo: dict = {}

    @staticmethod
    def _serve(req, res) -> None:
        for line in req:
            r, w = os.pipe()
            pid = os.fork()
            if pid == 0:
                os.close(r)
                try:
                    sess, one = json.loads(line)
                    out = json.dumps(run(sess, [one])[0])
                except BaseException as exc:  # noqa: BLE001
                    out = json.dumps({'oracle_error': '%s: %s' % (type(exc).__name__, exc)})
                with os.fdopen(w, 'w') as fh:
                    fh.write(out)
                os._exit(0)
            os.close(w)
            with os.fdopen(r, 'r') as fh:
                data = fh.read()
            os.waitpid(pid, 0)
            res.write(data + '\n')
            res.flush()

    def ask(self, sessions: list[dict], step: dict) -> dict:
        sess = [s for s in sessions if s['name'] == step['session']]
        one = {'session': step['session'], 'body': step['body']}
        if 'order' in step:
            one['order'] = step['order']
        key = json.dumps([sess, one], sort_keys=True)
        if key not in self.memo:
            self.req.write(key + '\n')
            self.req.flush()
            self.memo[key] = json.loads(self.res.readline())
        return self.memo[key]
