import sys, os, json
sys.path.insert(0, '/tmp/obs_C19/_out')
import c19_harness as H
from exabgp.logger import log
from exabgp.environment import getenv
if os.environ.get('C19_DEBUG'):
    env = getenv()
    env.log.enable = True
    env.log.all = True
    env.log.parser = True
    env.log.level = 'DEBUG'
    env.log.destination = '/dev/null'
    env.log.short = True
    log.init(env)
S=[{'name':'A','peer_ip':'10.0.0.2','asn4':True}]
attrs='40010100'+'40020602010000ffdd'+'400304'+'0a000009'
body='0000%04x%s18c00002' % (len(attrs)//2, attrs)
r=H.run(S,[{'session':'A','body':body,'order':['json6']},{'session':'A','body':body,'order':['json6']}])
print(json.dumps([x['counter'] for x in r]))
