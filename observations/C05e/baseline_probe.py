"""baseline_probe.py -- histories for which the UNCHANGED exabgp code leaves the session property.

run: cd /tmp/obs_C05 && PYTHONPATH=/tmp/obs_C05/src /venv/bin/python _out/baseline_probe.py
One line per case: VIOLATION / ok / note, then the observation. Exit status 1 if any violation reproduces.
The Peer, Protocol, Incoming, Outgoing (and for three cases the Reactor main loop and the Listener) are the real ones,
over loopback TCP; the stand-ins are in harness.py (the API pipes, and the reactor where the real one is not used).
"""

from __future__ import annotations

import asyncio
import os
import socket
import sys
import time

sys.path.insert(0, os.path.dirname(os.path.abspath(__file__)))

from harness import (  # noqa: E402
    FSM,
    KEEPALIVE,
    NOTIFICATION,
    OPEN,
    UPDATE,
    Configuration,
    Remote,
    Wire,
    eor_msg,
    establish_out,
    getenv,
    illegal,
    keepalive_msg,
    make_peer,
    next_port,
    notification_msg,
    open_msg,
    refuse,
    stop_peer,
    until,
    up_down_ok,
)

getenv().bgp.openwait = 2  # exabgp.bgp.openwait (60 by default): only makes the OPENSENT cases quick

RESULTS: list[tuple[str, str, str]] = []


def report(verdict: str, name: str, text: str) -> None:
    RESULTS.append((verdict, name, text))
    print(f'{verdict:9} {name}: {text}', flush=True)


def transport_open(peer) -> bool:  # noqa: ANN001
    return bool(peer.proto and peer.proto.connection and peer.proto.connection.io)


# --------------------------------------------------------------------------- the real Reactor + Listener


class Real:
    """the real Reactor main loop and Listener, one neighbor; the remote speaker listens on `cport`"""

    def __init__(self, passive: bool, hold: int = 9) -> None:
        from exabgp.protocol.ip import IP
        from exabgp.reactor.api.processes import Processes
        from exabgp.reactor.loop import Reactor

        self.lport = next_port()
        self.cport = next_port()
        env = getenv()
        env.tcp.bind = [IP.from_string('127.0.0.1')]
        env.tcp.port = self.lport
        conf = f"""
neighbor 127.0.0.1 {{
    router-id 10.0.0.2; local-address 127.0.0.1; local-as 65001; peer-as 65002; hold-time {hold};
    connect {self.cport}; {'passive true;' if passive else ''}
}}
"""
        self.reactor = Reactor(Configuration([conf], text=True))
        self.reactor.processes = Processes()
        assert self.reactor.listener.listen_on(IP.from_string('127.0.0.1'), None, self.lport, None, False, None)
        assert self.reactor.reload()
        (self.peer,) = self.reactor._peers.values()
        self.states: list[str] = ['IDLE']
        change = self.peer.fsm.change  # observe only

        def observed(state):  # noqa: ANN001
            self.states.append(state.name)
            return change(state)

        self.peer.fsm.change = observed  # type: ignore[method-assign]
        self.remote = Remote(self.cport)
        self.task = asyncio.create_task(self.reactor._async_main_loop())

    def connect_to_listener(self, label: str) -> Wire:
        sock = socket.socket()
        sock.connect(('127.0.0.1', self.lport))
        wire = Wire(sock, label)
        self.remote.wires.append(wire)
        return wire

    async def end(self) -> None:
        self.task.cancel()
        try:
            await self.task
        except BaseException:  # noqa: BLE001
            pass
        await stop_peer(self.peer)
        self.reactor.listener.stop()
        self.remote.close()


# --------------------------------------------------------------------------- violations


async def v1_collision_openconfirm() -> None:
    """real reactor + listener. OPENCONFIRM on the outgoing connection A, the peer (higher router-id) connects: B wins."""
    real = Real(passive=False, hold=3)
    peer = real.peer
    a = await real.remote.accept(label='A')
    assert a and await a.wait_for(OPEN)
    a.send(open_msg('10.0.0.9', hold=3))
    assert await a.wait_for(KEEPALIVE) and await until(lambda: peer.fsm == FSM.OPENCONFIRM)
    b = real.connect_to_listener('B')
    b.send(open_msg('10.0.0.9', hold=3))
    start = time.time()
    await a.wait_closed(2)
    await asyncio.sleep(0.5)
    b.poll()
    held = peer.fsm == FSM.IDLE and transport_open(peer) and not b.received and not b.closed_by_exabgp
    await b.wait_closed(6)
    waited = time.time() - start
    text = (
        f'A: got[{a.names()}] closed={a.closed_by_exabgp} (no Cease on A). 0.5s after B was accepted: fsm={"IDLE" if held else peer.fsm.name()} '
        f'with the accepted transport open={held}, nothing sent on B although B carried an OPEN; '
        f'after {waited:.1f}s (the hold time of the DEAD connection A) B: got[{b.names()}] closed={b.closed_by_exabgp}; states {">".join(real.states)}'
    )
    bad = held and NOTIFICATION in b.kinds() and OPEN not in b.kinds()
    report('VIOLATION' if bad else 'ok', 'collision in OPENCONFIRM, incoming wins', text)
    await real.end()


async def v2_collision_opensent() -> None:
    """real reactor + listener. OPENSENT on A (the peer has not answered), the peer connects instead: B."""
    real = Real(passive=False)
    peer = real.peer
    a = await real.remote.accept(label='A')
    assert a and await a.wait_for(OPEN) and await until(lambda: peer.fsm == FSM.OPENSENT)
    b = real.connect_to_listener('B')
    b.send(open_msg('10.0.0.1'))
    start = time.time()
    await a.wait_closed(2)
    await asyncio.sleep(0.5)
    b.poll()
    held = peer.fsm == FSM.IDLE and transport_open(peer) and not b.received and not b.closed_by_exabgp
    await b.wait_closed(5)
    waited = time.time() - start
    text = (
        f'A: got[{a.names()}] closed={a.closed_by_exabgp}. 0.5s after B was accepted: fsm IDLE with the accepted transport open={held}, '
        f'the OPEN on B unanswered; after {waited:.1f}s (openwait of the dead A) B: got[{b.names()}] closed={b.closed_by_exabgp}; '
        f'states {">".join(real.states)}'
    )
    bad = held and NOTIFICATION in b.kinds() and OPEN not in b.kinds()
    report('VIOLATION' if bad else 'ok', 'collision in OPENSENT', text)
    await real.end()


async def v3_refused_while_incoming_accepted() -> None:
    """nobody listens where exabgp connects (refused, retried for 5s); meanwhile the peer connects to exabgp."""
    port = next_port()
    remote = Remote(port)
    remote.stop_listening()
    peer, api = make_peer(port)
    peer.start_async_task()
    await asyncio.sleep(0.3)
    b, incoming = remote.connect_in('B')
    denied = peer.handle_connection(incoming)
    del incoming
    b.send(open_msg('10.0.0.1'))
    start = time.time()
    await asyncio.sleep(0.5)
    b.poll()
    held = not denied and peer.fsm == FSM.IDLE and transport_open(peer) and not b.received
    await b.wait_closed(8)
    waited = time.time() - start
    text = (
        f'B accepted (api {api.events}); 0.5s later fsm IDLE with the accepted transport open={held}, its OPEN unanswered; '
        f'after {waited:.1f}s B: got[{b.names()}] closed={b.closed_by_exabgp} (closed because the OUTGOING attempt failed); '
        f'states {">".join(api.states)}; then exabgp connects out again'
    )
    bad = held and b.closed_by_exabgp and not b.received
    report('VIOLATION' if bad else 'ok', 'connection refused while an incoming one is accepted', text)
    await stop_peer(peer)
    remote.close()


async def v3b_connect_succeeds_over_incoming() -> None:
    """as v3, but the peer starts to listen: the next outgoing attempt succeeds and replaces the accepted connection."""
    port = next_port()
    remote = Remote(port)
    remote.stop_listening()
    peer, api = make_peer(port)
    peer.start_async_task()
    await asyncio.sleep(0.25)
    b, incoming = remote.connect_in('B')
    peer.handle_connection(incoming)
    del incoming
    b.send(open_msg('10.0.0.9'))
    remote2 = Remote(port)
    a = await remote2.accept(2, 'A')
    await asyncio.sleep(0.3)
    b.poll()
    if a:
        a.poll()
    text = (
        f'B (accepted first, peer id 10.0.0.9 > 10.0.0.2) got[{b.names()}] closed={b.closed_by_exabgp}: dropped without a '
        f'NOTIFICATION nor a look at the identifiers, Peer._connect overwrote self.proto; A (outgoing) got[{a.names() if a else ""}]; '
        f'api {api.events}; states {">".join(api.states)}'
    )
    bad = bool(a) and b.closed_by_exabgp and not b.received
    report('note' if bad else 'ok', 'outgoing connect completes while an incoming one is accepted', text)
    await stop_peer(peer)
    remote.close()
    remote2.close()


async def v4_passive_connects_out() -> None:
    """real reactor + listener, `passive true`: after its first session ends, exabgp opens a connection itself."""
    real = Real(passive=True)
    peer = real.peer
    early = await real.remote.accept(0.8, 'EARLY')
    b = real.connect_to_listener('B')
    assert await b.wait_for(OPEN)
    b.send(open_msg('10.0.0.1'))
    assert await b.wait_for(KEEPALIVE)
    b.send(keepalive_msg())
    assert await until(lambda: peer.fsm == FSM.ESTABLISHED)
    b.send(notification_msg(6, 4))
    out = await real.remote.accept(3, 'OUT')
    if out:
        await out.wait_for(OPEN, 1, 1)
    text = (
        f'before any incoming connection: outgoing={bool(early)} (right); after the peer ended the session with a NOTIFICATION: '
        f'outgoing connection from the passive neighbor={bool(out)} got[{out.names() if out else ""}]; states {">".join(real.states)}'
    )
    report('VIOLATION' if out else 'ok', 'passive neighbor after its first session', text)
    await real.end()


async def v4b_ephemeral_connects_out() -> None:
    """a peer made by the Listener for a range neighbor (ephemeral): FSMRunner.terminate() is not looked at by run()."""
    port = next_port()
    remote = Remote(port)
    peer, api = make_peer(port, passive=True)
    peer.neighbor.ephemeral = True  # what Listener.new_connections sets on the copy of a range neighbor
    b, incoming = remote.connect_in('B')
    peer.handle_connection(incoming)
    del incoming
    peer.start_async_task()
    assert await b.wait_for(OPEN)
    b.send(open_msg('10.0.0.1'))
    assert await b.wait_for(KEEPALIVE)
    b.send(keepalive_msg())
    assert await until(lambda: peer.fsm == FSM.ESTABLISHED)
    b.sock.close()
    out = await remote.accept(3, 'OUT')
    text = (
        f'after the session ended: terminated={peer.fsm_runner.terminated}, task done={peer._async_task.done()}, '
        f'outgoing connection={bool(out)}; states {">".join(api.states)}'
    )
    report('VIOLATION' if out else 'ok', 'ephemeral (range) peer after its session', text)
    await stop_peer(peer)
    remote.close()


async def v5_teardown_before_established() -> None:
    """teardown(2) / a reload which changes the neighbor (reestablish) while in OPENCONFIRM."""
    port = next_port()
    remote = Remote(port)
    peer, api = make_peer(port)
    a = await establish_out(peer, remote, upto='OPENCONFIRM')
    peer.teardown(2)
    await asyncio.sleep(0.6)
    a.poll()
    ignored = peer.fsm == FSM.OPENCONFIRM and not a.closed_by_exabgp and NOTIFICATION not in a.kinds()
    a.send(keepalive_msg())
    await a.wait_closed(2)
    reached = 'ESTABLISHED' in api.states
    text = (
        f'0.6s after teardown(2): fsm OPENCONFIRM, no NOTIFICATION, transport open={ignored}; the KEEPALIVE of the peer then '
        f'moves it to ESTABLISHED={reached}; A: got[{a.names()}] (the code asked for was 2); api {api.events}; states {">".join(api.states)}'
    )
    report('VIOLATION' if ignored and reached else 'ok', 'teardown requested in OPENCONFIRM', text)
    await stop_peer(peer)
    remote.close()


# --------------------------------------------------------------------------- found correct


async def inject(name: str, upto: str, data: bytes | None, expect: tuple[int, int] | None, hold: int = 9, wait: float = 1.5, gr: bool = False, action=None, expect_down: bool = True) -> None:  # noqa: ANN001, E501
    port = next_port()
    remote = Remote(port)
    peer, api = make_peer(port, hold=hold, gr=gr)
    a = await establish_out(peer, remote, upto=upto)
    if upto == 'ESTABLISHED':
        await a.wait_for(UPDATE, 2, 1)
    if data == b'close':
        a.sock.close()
        await until(lambda: peer.proto is None, wait)
    else:
        if data:
            a.send(data)
        if action:
            action(peer)
        await a.wait_closed(wait)
    await asyncio.sleep(0.05)
    a.poll() if data != b'close' else None
    notes = [tuple(b[:2]) for k, b in a.received if k == NOTIFICATION]
    good = peer.proto is None and not illegal(api.states) and up_down_ok(api.events)
    good = good and (data == b'close' or a.closed_by_exabgp)
    if upto == 'ESTABLISHED' and expect_down:
        good = good and api.events[-2:] == ['up', 'down']
    if upto != 'ESTABLISHED':
        good = good and 'up' not in api.events and UPDATE not in a.kinds()
    if expect is not None:
        good = good and notes == [expect]
    report('ok' if good else 'VIOLATION', name, f'got[{a.names() if data != b"close" else "-"}] api {api.events} states {">".join(api.states)}')
    await stop_peer(peer)
    remote.close()


async def correct_cases() -> None:
    # the plain session
    port = next_port()
    remote = Remote(port)
    peer, api = make_peer(port)
    a = await establish_out(peer, remote)
    await a.wait_for(UPDATE, 2, 2)
    good = a.kinds()[:2] == [OPEN, KEEPALIVE] and not illegal(api.states) and api.events == ['connected', 'up']
    report('ok' if good else 'VIOLATION', 'plain session', f'got[{a.names()}] api {api.events} states {">".join(api.states)}')
    # an incoming connection while ESTABLISHED is refused with 6/7 and the session stays
    b, incoming = remote.connect_in('B')
    denied = peer.handle_connection(incoming)
    if denied:
        refuse(incoming, denied)
    await b.wait_closed(1)
    good = bool(denied) and peer.fsm == FSM.ESTABLISHED and b.names() == 'NOTIFICATION(6, 7)' and b.closed_by_exabgp
    report('ok' if good else 'VIOLATION', 'incoming connection in ESTABLISHED', f'B got[{b.names()}] closed={b.closed_by_exabgp} fsm {peer.fsm.name()}')
    await stop_peer(peer)
    remote.close()

    # collision in OPENCONFIRM, the peer has the LOWER identifier: the incoming connection is refused
    port = next_port()
    remote = Remote(port)
    peer, api = make_peer(port)
    a = await establish_out(peer, remote, remote_id='10.0.0.1', upto='OPENCONFIRM')
    b, incoming = remote.connect_in('B')
    denied = peer.handle_connection(incoming)
    if denied:
        refuse(incoming, denied)
    await b.wait_closed(1)
    a.send(keepalive_msg())
    await until(lambda: peer.fsm == FSM.ESTABLISHED, 1)
    good = bool(denied) and b.names() == 'NOTIFICATION(6, 7)' and peer.fsm == FSM.ESTABLISHED and not illegal(api.states)
    report('ok' if good else 'VIOLATION', 'collision in OPENCONFIRM, outgoing wins', f'B got[{b.names()}] fsm {peer.fsm.name()}')
    await stop_peer(peer)
    remote.close()

    # KEEPALIVE before OPEN
    port = next_port()
    remote = Remote(port)
    peer, api = make_peer(port)
    peer.start_async_task()
    a = await remote.accept()
    assert a and await a.wait_for(OPEN)
    a.send(keepalive_msg())
    await a.wait_closed(1)
    good = a.names() == 'OPEN,NOTIFICATION(5, 1)' and peer.proto is None and 'ESTABLISHED' not in api.states
    report('ok' if good else 'VIOLATION', 'KEEPALIVE before OPEN', f'got[{a.names()}] states {">".join(api.states)}')
    await stop_peer(peer)
    remote.close()

    await inject('UPDATE in OPENCONFIRM', 'OPENCONFIRM', eor_msg(), (5, 2))
    await inject('OPEN twice (second in OPENCONFIRM)', 'OPENCONFIRM', open_msg('10.0.0.1'), (5, 2))
    for state in ('OPENSENT', 'OPENCONFIRM', 'ESTABLISHED'):
        await inject(f'NOTIFICATION received in {state}', state, notification_msg(6, 2), None)
        await inject(f'TCP close in {state}', state, b'close', None)
    await inject('hold timer in OPENCONFIRM (3s)', 'OPENCONFIRM', None, (4, 0), hold=3, wait=5)
    await inject('hold timer in ESTABLISHED (3s)', 'ESTABLISHED', None, (4, 0), hold=3, wait=6)
    await inject('no OPEN within openwait in OPENSENT', 'OPENSENT', None, (5, 1), wait=4)
    await inject('teardown(2) in ESTABLISHED', 'ESTABLISHED', None, (6, 2), action=lambda p: p.teardown(2))
    await inject('reestablish in ESTABLISHED', 'ESTABLISHED', None, (6, 3), action=lambda p: p.reestablish())
    await inject('reestablish in ESTABLISHED, graceful-restart', 'ESTABLISHED', None, None, action=lambda p: p.reestablish(), gr=True)
    await inject('remove() in ESTABLISHED', 'ESTABLISHED', None, None, action=lambda p: p.remove())
    await inject('shutdown() in OPENCONFIRM', 'OPENCONFIRM', None, None, action=lambda p: p.shutdown())


async def note_open_in_established() -> None:
    port = next_port()
    remote = Remote(port)
    peer, api = make_peer(port)
    a = await establish_out(peer, remote)
    await a.wait_for(UPDATE, 2, 1)
    a.send(open_msg('10.9.9.9', hold=30))
    await a.wait_closed(1)
    ignored = peer.fsm == FSM.ESTABLISHED and not a.closed_by_exabgp and NOTIFICATION not in a.kinds()
    report('note' if ignored else 'ok', 'OPEN (another identifier) received in ESTABLISHED', f'ignored={ignored}: no NOTIFICATION 5/3, session stays; got[{a.names()}]')
    await stop_peer(peer)
    remote.close()


async def race_sweep() -> None:
    """KEEPALIVE of A and the acceptance of B in the same turns of the loop: looked for IDLE->ESTABLISHED on B."""
    seen = []
    for k in range(0, 4):
        port = next_port()
        remote = Remote(port)
        peer, api = make_peer(port)
        a = await establish_out(peer, remote, remote_id='10.0.0.9', upto='OPENCONFIRM')
        b, incoming = remote.connect_in('B')
        a.send(keepalive_msg())
        for _ in range(k):
            await asyncio.sleep(0)
        denied = peer.handle_connection(incoming)
        if denied:
            refuse(incoming, denied)
        del incoming
        await asyncio.sleep(0.3)
        b.poll()
        seen.append((k, 'refused' if denied else 'accepted', illegal(api.states), UPDATE in b.kinds()))
        await stop_peer(peer)
        remote.close()
    bad = [s for s in seen if s[2] or s[3]]
    report('VIOLATION' if bad else 'ok', 'race KEEPALIVE(A) / accept(B), 0..3 turns apart', f'(turns, B, illegal transitions, UPDATE on B) = {seen}')


async def main() -> int:
    cases = (
        v1_collision_openconfirm,
        v2_collision_opensent,
        v3_refused_while_incoming_accepted,
        v3b_connect_succeeds_over_incoming,
        v4_passive_connects_out,
        v4b_ephemeral_connects_out,
        v5_teardown_before_established,
        note_open_in_established,
        race_sweep,
        correct_cases,
    )
    for case in cases:
        try:
            await asyncio.wait_for(case(), 60)
        except Exception as exc:  # noqa: BLE001
            report('error', case.__name__, f'{type(exc).__name__}: {exc}')
    violations = [r for r in RESULTS if r[0] == 'VIOLATION']
    print(f'\n{len(violations)} violation(s), {len([r for r in RESULTS if r[0] == "note"])} note(s), {len([r for r in RESULTS if r[0] == "ok"])} ok, {len([r for r in RESULTS if r[0] == "error"])} error(s)')
    return 1 if violations else 0


if __name__ == '__main__':
    code = asyncio.run(main())
    sys.stdout.flush()
    os._exit(code)
