"""harness.py -- drives the REAL exabgp Peer / Protocol / Incoming / Outgoing objects over loopback TCP.

Stand-ins (only): the Reactor (an object holding `processes`) and the API `Processes` (a recorder of the
up / down / connected / fsm events). Everything the property talks about is the unchanged code of src/.
"""

from __future__ import annotations

import os

os.environ.setdefault('exabgp_log_enable', 'false')
os.environ.setdefault('exabgp_tcp_attempts', '0')

import asyncio  # noqa: E402
import socket  # noqa: E402
import struct  # noqa: E402
import time  # noqa: E402

from exabgp.bgp.fsm import FSM  # noqa: E402
from exabgp.configuration.configuration import Configuration  # noqa: E402
from exabgp.environment import getenv  # noqa: E402
from exabgp.protocol.family import AFI  # noqa: E402
from exabgp.reactor.network.incoming import Incoming  # noqa: E402
from exabgp.reactor.peer import Peer  # noqa: E402

MARKER = b'\xff' * 16
OPEN, UPDATE, NOTIFICATION, KEEPALIVE, REFRESH = 1, 2, 3, 4, 5
NAMES = {1: 'OPEN', 2: 'UPDATE', 3: 'NOTIFICATION', 4: 'KEEPALIVE', 5: 'ROUTE-REFRESH'}

LOCAL_ID = '10.0.0.2'
LOCAL_AS = 65001
PEER_AS = 65002

_port = [17900 + (os.getpid() % 500) * 4]


def next_port() -> int:
    _port[0] += 1
    return _port[0]


def msg(kind: int, body: bytes = b'') -> bytes:
    return MARKER + struct.pack('!HB', 19 + len(body), kind) + body


def open_msg(router_id: str, asn: int = PEER_AS, hold: int = 9, version: int = 4) -> bytes:
    caps = bytes([1, 4, 0, 1, 0, 1]) + bytes([65, 4]) + struct.pack('!L', asn)
    params = bytes([2, len(caps)]) + caps
    body = bytes([version]) + struct.pack('!HH', asn, hold) + socket.inet_aton(router_id) + bytes([len(params)]) + params
    return msg(OPEN, body)


def keepalive_msg() -> bytes:
    return msg(KEEPALIVE)


def notification_msg(code: int, sub: int) -> bytes:
    return msg(NOTIFICATION, bytes([code, sub]))


def eor_msg() -> bytes:
    return msg(UPDATE, b'\x00\x00\x00\x00')


class Processes:
    """Records what the API would be told (stand-in for the pipes to the helper programs)."""

    def __init__(self) -> None:
        self.events: list[str] = []  # 'up' / 'down' / 'connected'
        self.states: list[str] = ['IDLE']  # the FSM states, in order
        self.terminate_on_error = False

    def broken(self, neighbor):  # noqa: ANN001
        return False

    def up(self, neighbor):  # noqa: ANN001
        self.events.append('up')

    def down(self, neighbor, reason):  # noqa: ANN001
        self.events.append('down')

    def connected(self, neighbor):  # noqa: ANN001
        self.events.append('connected')

    def fsm(self, neighbor, fsm):  # noqa: ANN001
        self.states.append(fsm.name())

    def negotiated(self, neighbor, negotiated):  # noqa: ANN001
        pass

    def __getattr__(self, name):  # anything else the code may tell the API
        def _any(*args, **kwargs):  # noqa: ANN002, ANN003
            return None

        return _any


class Reactor:
    def __init__(self) -> None:
        self.processes = Processes()

    def shutdown(self) -> None:
        pass


def make_peer(port: int, passive: bool = False, hold: int = 9, gr: bool = False) -> tuple[Peer, Processes]:
    conf = f"""
neighbor 127.0.0.1 {{
    router-id {LOCAL_ID};
    local-address 127.0.0.1;
    local-as {LOCAL_AS};
    peer-as {PEER_AS};
    hold-time {hold};
    connect {port};
    {'passive true;' if passive else ''}
    {'capability { graceful-restart 120; }' if gr else ''}
    static {{ route 192.0.2.0/24 next-hop 10.0.0.2; }}
}}
"""
    configuration = Configuration([conf], text=True)
    assert configuration.reload(), configuration.error
    (neighbor,) = configuration.neighbors.values()
    neighbor.api['neighbor-changes'] = ['probe']
    neighbor.api['fsm'] = ['probe']
    reactor = Reactor()
    peer = Peer(neighbor, reactor)  # type: ignore[arg-type]
    return peer, reactor.processes


def transitions(states: list[str]) -> list[tuple[str, str]]:
    return [(a, b) for a, b in zip(states, states[1:]) if a != b]


def illegal(states: list[str]) -> list[str]:
    """The transitions which are not in the table of exabgp.bgp.fsm.FSM.transition (to: [from])."""
    bad = []
    for a, b in transitions(states):
        if FSM.STATE[a] not in FSM.transition[FSM.STATE[b]]:
            bad.append(f'{a}->{b}')
    return bad


def up_down_ok(events: list[str]) -> bool:
    """every "up" is followed by a "down" before the next "up" (the last one may still be up)."""
    is_up = False
    for event in events:
        if event == 'up':
            if is_up:
                return False
            is_up = True
        elif event == 'down':
            is_up = False
    return True


class Wire:
    """One TCP connection seen from the remote BGP speaker."""

    def __init__(self, sock: socket.socket, label: str) -> None:
        sock.setblocking(False)
        self.sock = sock
        self.label = label
        self.received: list[tuple[int, bytes]] = []  # what exabgp sent on this connection
        self.sent: list[int] = []
        self.closed_by_exabgp = False
        self._buffer = b''

    def send(self, data: bytes) -> None:
        self.sent.append(data[18])
        self.sock.setblocking(True)
        try:
            self.sock.sendall(data)
        finally:
            self.sock.setblocking(False)

    def poll(self) -> None:
        """take whatever exabgp wrote (does not wait)"""
        while not self.closed_by_exabgp:
            try:
                data = self.sock.recv(65536)
            except BlockingIOError:
                break
            except OSError:
                self.closed_by_exabgp = True
                break
            if not data:
                self.closed_by_exabgp = True
                break
            self._buffer += data
        while len(self._buffer) >= 19:
            length = struct.unpack('!H', self._buffer[16:18])[0]
            if len(self._buffer) < length:
                break
            self.received.append((self._buffer[18], self._buffer[19:length]))
            self._buffer = self._buffer[length:]

    async def wait(self, condition, timeout: float = 3.0) -> bool:  # noqa: ANN001
        end = time.time() + timeout
        while time.time() < end:
            self.poll()
            if condition(self):
                return True
            await asyncio.sleep(0.005)
        self.poll()
        return bool(condition(self))

    async def wait_for(self, kind: int, count: int = 1, timeout: float = 3.0) -> bool:
        return await self.wait(lambda w: w.kinds().count(kind) >= count, timeout)

    async def wait_closed(self, timeout: float = 3.0) -> bool:
        return await self.wait(lambda w: w.closed_by_exabgp, timeout)

    def kinds(self) -> list[int]:
        return [k for k, _ in self.received]

    def names(self) -> str:
        return ','.join(NAMES.get(k, str(k)) + (str(tuple(b[:2])) if k == NOTIFICATION else '') for k, b in self.received)

    def close(self) -> None:
        try:
            self.sock.close()
        except OSError:
            pass


class Remote:
    """The other BGP speaker: listens where exabgp connects, and connects to exabgp (handed to handle_connection)."""

    def __init__(self, port: int) -> None:
        self.port = port
        self.server = socket.socket(socket.AF_INET, socket.SOCK_STREAM)
        self.server.setsockopt(socket.SOL_SOCKET, socket.SO_REUSEADDR, 1)
        self.server.bind(('127.0.0.1', port))
        self.server.listen(8)
        self.server.setblocking(False)
        self.wires: list[Wire] = []

    async def accept(self, timeout: float = 3.0, label: str = 'out') -> Wire | None:
        """the next connection exabgp OPENED to us"""
        end = time.time() + timeout
        while time.time() < end:
            try:
                sock, _ = self.server.accept()
                wire = Wire(sock, label)
                self.wires.append(wire)
                return wire
            except BlockingIOError:
                await asyncio.sleep(0.005)
        return None

    def stop_listening(self) -> None:
        self.server.close()

    def connect_in(self, label: str = 'in') -> tuple[Wire, Incoming]:
        """a connection we open to exabgp: what Listener._connected() builds for an accepted socket"""
        tmp = socket.socket(socket.AF_INET, socket.SOCK_STREAM)
        tmp.bind(('127.0.0.1', 0))
        tmp.listen(1)
        ours = socket.socket(socket.AF_INET, socket.SOCK_STREAM)
        ours.connect(tmp.getsockname())
        io, _ = tmp.accept()
        tmp.close()
        # as in Listener._connected(): Incoming(afi, getsockname, getpeername, io)
        incoming = Incoming(AFI.ipv4, io.getsockname()[0], io.getpeername()[0], io)
        wire = Wire(ours, label)
        self.wires.append(wire)
        return wire, incoming

    def close(self) -> None:
        for wire in self.wires:
            wire.close()
        try:
            self.server.close()
        except OSError:
            pass


def refuse(connection: Incoming, denied) -> None:  # noqa: ANN001
    """Listener._refuse, verbatim"""
    for _ in zip(range(64), denied):
        pass
    connection.close()


async def until(condition, timeout: float = 3.0) -> bool:  # noqa: ANN001
    end = time.time() + timeout
    while time.time() < end:
        if condition():
            return True
        await asyncio.sleep(0.005)
    return bool(condition())


async def stop_peer(peer: Peer) -> None:
    peer.stop_async_task()
    task = peer._async_task
    if task is not None:
        try:
            await task
        except (asyncio.CancelledError, Exception):
            pass
    if peer.proto:
        peer.proto.close('end of the probe')


async def establish_out(peer: Peer, remote: Remote, remote_id: str = '10.0.0.1', upto: str = 'ESTABLISHED') -> Wire:
    """exabgp connects to us; we play the peer up to the state asked for"""
    peer.start_async_task()
    wire = await remote.accept()
    assert wire is not None, 'exabgp did not connect'
    assert await wire.wait_for(OPEN), 'no OPEN from exabgp'
    if upto == 'OPENSENT':
        return wire
    wire.send(open_msg(remote_id))
    assert await wire.wait_for(KEEPALIVE), 'no KEEPALIVE from exabgp'
    await until(lambda: peer.fsm == FSM.OPENCONFIRM)
    if upto == 'OPENCONFIRM':
        return wire
    wire.send(keepalive_msg())
    assert await until(lambda: peer.fsm == FSM.ESTABLISHED), 'not ESTABLISHED'
    return wire


__all__ = [name for name in dir() if not name.startswith('_')]
_ = getenv
