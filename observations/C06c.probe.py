"""C06 baseline probe: inputs / configurations for which the UNCHANGED tree violates
"message framing is independent of how TCP delivers the bytes / header faults end the session with 1/1, 1/2, 1/3".

Everything runs the real code: a real Neighbor parsed from configuration text, a real Peer running Peer._run()
(OPEN exchange, then the main loop), a real Protocol and Connection sitting on one end of a socketpair.  The
other end plays the remote speaker.  Exit status 1 while at least one of the numbered problems is present.

Run:  cd <tree> && PYTHONPATH=<tree>/src /venv/bin/python _out/baseline_probe.py
"""
import asyncio
import os
import sys

sys.path.insert(0, os.path.dirname(os.path.abspath(__file__)))
from common import msg, mkpeer, mkproto, feed, open_msg, drain, segments, read_message_outcome  # noqa: E402


async def session(after, local_as='65500', extended='enable', peer_ext=True, quiet=1.0, seg=None):
    """Establish a session, deliver <after>, report what the speaker sent back after its own OPEN."""
    peer, proto, c, b = mkpeer(local_as, extended)
    loop = asyncio.get_event_loop()
    await loop.sock_sendall(b, open_msg(ext=peer_ext) + msg(4))
    task = asyncio.ensure_future(peer._run())
    await asyncio.sleep(0.4)
    before = peer.fsm.name()
    for chunk in segments(after, seg) if seg else [after]:
        try:
            await loop.sock_sendall(b, chunk)
        except OSError:
            break
        if seg:
            await asyncio.sleep(0.001)
    sent, end = await drain(b, quiet)
    result = {
        'fsm_before': before,
        'fsm_after': peer.fsm.name(),
        'notifications': [(body[0], body[1], bytes(body[2:])) for (t, body) in sent if t == 3],
        'socket': end,
        'connection.msg_size': c.msg_size,
        'negotiated.msg_size': proto.negotiated.msg_size,
        'negotiated.operational': proto.negotiated.operational,
    }
    peer.stop()
    try:
        await asyncio.wait_for(task, 3)
    except Exception:
        task.cancel()
    return result


def codes(result):
    return [(c, s) for (c, s, _d) in result['notifications']]


def big_update(size):
    withdrawn = size - 23
    return msg(2, withdrawn.to_bytes(2, 'big') + b'\x00' * withdrawn + b'\x00\x00')


async def main():
    problems = []

    def report(tag, title, expected, observed, bad):
        print(f'[{tag}] {title}\n      expected: {expected}\n      observed: {observed}\n      => {"PROBLEM" if bad else "ok"}')
        if bad:
            problems.append(tag)

    # ------------------------------------------------------------------ B1
    # 'local-as auto': Peer._establish copies negotiated.msg_size into Connection.msg_size right after the
    # peer's OPEN is read, but in this mode our own OPEN has not been sent yet, so Negotiated._negotiate has
    # not run: the copy is 4096 and nothing copies again.  Both sides announced Extended Message.
    for local_as in ('65500', 'auto'):
        for seg in (None, 1500):
            r = await session(big_update(5000) + msg(4), local_as=local_as, seg=seg)
            bad = codes(r) != [] or r['connection.msg_size'] != 65535
            report(
                'B1' if local_as == 'auto' else 'B1-control',
                f"local-as {local_as}, Extended Message announced by both, valid UPDATE of 5000 octets ({seg or 'one'} segment(s))",
                'accepted; Connection.msg_size 65535',
                f"NOTIFICATION sent {codes(r)}, socket {r['socket']}, Connection.msg_size {r['connection.msg_size']}, negotiated.msg_size {r['negotiated.msg_size']}",
                bad,
            )

    # ------------------------------------------------------------------ B2
    # Type 6 (OPERATIONAL, an ExaBGP extension without an IANA code point) is in Message.CODE.MESSAGES, so
    # Protocol.read_message never treats it as an unknown type, whether or not the capability was negotiated.
    adm = msg(6, b'\x00\x01\x00\x04' + b'\x00\x01\x01' + b'a')  # ADM, ipv4 unicast, "a"
    r = await session(adm + msg(4))
    report(
        'B2',
        'type 6 message on a session where the operational capability was NOT negotiated',
        'NOTIFICATION 1/3 (Bad Message Type), session closed',
        f"negotiated.operational={r['negotiated.operational']}, NOTIFICATION sent {codes(r)}, socket {r['socket']}, fsm {r['fsm_after']}",
        codes(r) != [(1, 3)],
    )
    r = await session(msg(6) + msg(4))
    report(
        'B2b',
        'type 6 message of 19 octets (header only), capability not negotiated',
        'NOTIFICATION 1/3 (or 1/2 if the type were known): a Message Header Error',
        f'NOTIFICATION sent {codes(r)}',
        not codes(r) or codes(r)[0][0] != 1,
    )

    # ------------------------------------------------------------------ B3
    # The type is known as soon as the 19 header octets are in, but Connection.reader_async reads the whole
    # declared body before Protocol.read_message looks at the type: with the body in a later segment (or never
    # sent) the 1/3 is delayed until then - the outcome depends on the segmentation.
    r = await session(msg(9, length=100), quiet=1.5)  # header only, the 81 body octets do not follow
    report(
        'B3',
        'header with unknown type 9 and length 100 delivered, body octets not (yet) delivered, 1.5 s wait',
        'NOTIFICATION 1/3 as soon as the header is complete (as 1/1 and 1/2 are)',
        f"NOTIFICATION sent {codes(r)}, socket {r['socket']}, fsm {r['fsm_after']}",
        codes(r) != [(1, 3)],
    )
    r = await session(msg(9, b'\x00' * 81))
    report('B3-control', 'same message delivered completely', 'NOTIFICATION 1/3', f'NOTIFICATION sent {codes(r)}', codes(r) != [(1, 3)])

    # ------------------------------------------------------------------ B4
    # RFC 8654 section 4: the extended size applies to all messages except OPEN and KEEPALIVE, which stay
    # limited to 4096.  Message.Length has no upper bound for OPEN.
    p, b = mkproto(msg_size=65535)
    body = open_msg()[19:]
    await feed(b, [msg(1, body + b'\x00' * (5000 - 19 - len(body)))])
    got = await read_message_outcome(p)
    report(
        'B4',
        'OPEN of 5000 octets on a connection whose msg_size is 65535 (Protocol.read_message)',
        "Notify 1/2: above the bound of its type",
        got,
        got != ('Notify', 1, 2),
    )
    r = await session(msg(1, body + b'\x00' * (5000 - 19 - len(body))) + msg(4))
    report(
        'B4b',
        'same OPEN sent on an ESTABLISHED session with Extended Message negotiated',
        'NOTIFICATION 1/2 (or at the very least an FSM error 5/x for an OPEN in ESTABLISHED)',
        f"NOTIFICATION sent {codes(r)}, socket {r['socket']}, fsm {r['fsm_after']}",
        codes(r) == [],
    )

    # ------------------------------------------------------------------ informational
    r = await session(msg(4, length=18) + msg(4))
    print(f"[info] Data field of the 1/2 NOTIFICATION for Length=18: {r['notifications'][0][2]!r} "
          f"(RFC 4271 6.1: MUST be the erroneous Length field, i.e. b'\\x00\\x12')")
    r = await session(msg(9) + msg(4))
    print(f"[info] Data field of the 1/3 NOTIFICATION for Type=9: {r['notifications'][0][2]!r} "
          f"(RFC 4271 6.1: MUST be the erroneous Type field, i.e. b'\\x09')")
    r = await session(open_msg() + msg(4))
    print(f"[info] a second, well-formed OPEN on an ESTABLISHED session: NOTIFICATION sent {codes(r)}, fsm {r['fsm_after']} "
          f"(RFC 4271 8.2.2: FSM error; adjacent to C06, not counted)")

    real = [p_ for p_ in problems if 'control' not in p_]
    print('\nproblems present:', ', '.join(real) if real else 'none')
    if [p_ for p_ in problems if 'control' in p_]:
        print('WARNING: a control case failed:', problems)
    return 1 if problems else 0


sys.exit(asyncio.run(main()))
