"""Helpers for baseline_probe.py: a controllable clock and a time-scaled asyncio loop which run the REAL
exabgp Peer / Protocol / timers over a loopback TCP session.

Nothing under src/ is modified. Two clocks are substituted:
  * `exabgp.bgp.timer.time` (the module object the two timers read) -> a FakeTimeModule
  * the asyncio loop clock (wait_for / sleep / wait timeouts) -> ScaledLoop, virtual = real * SCALE
so that a hold time of 3 "seconds" takes 3/SCALE real seconds.
"""

from __future__ import annotations

import asyncio
import os
import selectors
import socket
import struct
import time as _real_time

os.environ.setdefault('exabgp_log_enable', 'false')
os.environ.setdefault('exabgp.log.enable', 'false')

SCALE = 20.0


# ----------------------------------------------------------------------------- clocks


class FakeTimeModule:
    """stands for the `time` module inside exabgp.bgp.timer; .now is set by the test"""

    def __init__(self, now: float = 1_000_000.0) -> None:
        self.now = now

    def time(self) -> float:
        return self.now


class ScaledWallClock:
    """wall clock = base + SCALE * real elapsed + offset (offset: an NTP step decided by the test)"""

    def __init__(self) -> None:
        self.t0 = _real_time.monotonic()
        self.base = 1_000_000.0
        self.offset = 0.0

    def virtual(self) -> float:
        """virtual seconds since the clock was created (never stepped)"""
        return (_real_time.monotonic() - self.t0) * SCALE

    def time(self) -> float:
        return self.base + self.virtual() + self.offset


class _ScaledSelector:
    def __init__(self, inner: selectors.BaseSelector) -> None:
        self._inner = inner

    def select(self, timeout=None):
        if timeout is not None and timeout > 0:
            timeout = timeout / SCALE
        return self._inner.select(timeout)

    def __getattr__(self, name):
        return getattr(self._inner, name)


class ScaledLoop(asyncio.SelectorEventLoop):
    def __init__(self) -> None:
        super().__init__(_ScaledSelector(selectors.DefaultSelector()))
        self._t0 = _real_time.monotonic()

    def time(self) -> float:
        return (_real_time.monotonic() - self._t0) * SCALE


def run_scaled(coro):
    loop = ScaledLoop()
    try:
        asyncio.set_event_loop(loop)
        return loop.run_until_complete(coro)
    finally:
        try:
            pending = [t for t in asyncio.all_tasks(loop) if not t.done()]
            for t in pending:
                t.cancel()
            if pending:
                loop.run_until_complete(asyncio.gather(*pending, return_exceptions=True))
        finally:
            asyncio.set_event_loop(None)
            loop.close()


# ----------------------------------------------------------------------------- BGP wire helpers (the fake peer)

MARKER = b'\xff' * 16


def msg(kind: int, body: bytes = b'') -> bytes:
    return MARKER + struct.pack('!HB', 19 + len(body), kind) + body


def open_msg(asn: int, hold: int, rid: str = '10.0.0.2') -> bytes:
    # capabilities: multiprotocol ipv4 unicast, 4-byte ASN
    caps = b'\x01\x04\x00\x01\x00\x01' + b'\x41\x04' + struct.pack('!L', asn)
    params = b'\x02' + bytes([len(caps)]) + caps
    body = b'\x04' + struct.pack('!HH', asn if asn < 65536 else 23456, hold) + socket.inet_aton(rid)
    body += bytes([len(params)]) + params
    return msg(1, body)


KEEPALIVE = msg(4)


class Wire:
    """what the fake peer saw, with virtual timestamps"""

    def __init__(self, clock: ScaledWallClock) -> None:
        self.clock = clock
        self.buf = b''
        self.events: list[tuple[float, int, bytes]] = []  # (virtual time, type, body)
        self.eof_at: float | None = None

    def feed(self, data: bytes) -> None:
        self.buf += data
        while len(self.buf) >= 19:
            length = struct.unpack('!H', self.buf[16:18])[0]
            if len(self.buf) < length:
                break
            self.events.append((self.clock.virtual(), self.buf[18], self.buf[19:length]))
            self.buf = self.buf[length:]

    def of(self, kind: int) -> list[tuple[float, bytes]]:
        return [(t, b) for (t, k, b) in self.events if k == kind]

    def notification(self) -> tuple[float, int, int] | None:
        n = self.of(3)
        if not n:
            return None
        t, b = n[0]
        return (t, b[0], b[1])


# ----------------------------------------------------------------------------- the real exabgp side


class _Processes:
    terminate_on_error = False

    def broken(self, neighbor):
        return False

    def __getattr__(self, name):
        def _nothing(*args, **kwargs):
            return None

        return _nothing


class _Reactor:
    def __init__(self) -> None:
        self.processes = _Processes()

    def shutdown(self) -> None:
        pass


def make_peer(port: int, hold: int, routes: str = '', extra: str = ''):
    from exabgp.configuration.configuration import Configuration
    from exabgp.reactor.peer.peer import Peer

    text = f"""
neighbor 127.0.0.1 {{
    router-id 10.0.0.1;
    local-address 127.0.0.1;
    local-as 65001;
    peer-as 65002;
    hold-time {hold};
    {extra}
    family {{ ipv4 unicast; }}
    static {{
{routes}
    }}
}}
"""
    conf = Configuration([text], text=True)
    if not conf.reload():
        raise RuntimeError('configuration refused: %s' % conf.error)
    neighbor = list(conf.neighbors.values())[0]
    neighbor.session.connect = port
    peer = Peer(neighbor, _Reactor())
    return peer


def install_clock(clock) -> None:
    import exabgp.bgp.timer as timer_module

    timer_module.time = clock  # the only clock ReceiveTimer / SendTimer read


def restore_clock() -> None:
    import exabgp.bgp.timer as timer_module

    timer_module.time = _real_time


# ----------------------------------------------------------------------------- session runner


class Session:
    """one loopback session between the real Peer and a scripted fake peer"""

    def __init__(self, hold_local: int, routes: str = '', rcvbuf: int | None = None, extra: str = '') -> None:
        self.hold_local = hold_local
        self.routes = routes
        self.rcvbuf = rcvbuf
        self.extra = extra
        self.reading = True
        self.read_chunk = 65536
        self.read_pause = 0.0  # virtual seconds between two reads of the fake peer
        self.clock: ScaledWallClock | None = None
        self.wire: Wire | None = None
        self.conn: socket.socket | None = None
        self.peer = None
        self.task = None

    async def _pump(self) -> None:
        loop = asyncio.get_event_loop()
        assert self.conn is not None and self.wire is not None and self.clock is not None
        while True:
            if not self.reading:
                await asyncio.sleep(0.05)
                continue
            try:
                data = await loop.sock_recv(self.conn, self.read_chunk)
            except OSError:
                data = b''
            if not data:
                self.wire.eof_at = self.clock.virtual()
                return
            self.wire.feed(data)
            if self.read_pause:
                await asyncio.sleep(self.read_pause)

    async def send(self, data: bytes) -> float:
        loop = asyncio.get_event_loop()
        await loop.sock_sendall(self.conn, data)
        return self.clock.virtual()

    async def start(self) -> None:
        """connects the real Peer to the fake one; returns once the TCP session is accepted"""
        loop = asyncio.get_event_loop()
        lsock = socket.socket(socket.AF_INET, socket.SOCK_STREAM)
        lsock.setsockopt(socket.SOL_SOCKET, socket.SO_REUSEADDR, 1)
        if self.rcvbuf:
            lsock.setsockopt(socket.SOL_SOCKET, socket.SO_RCVBUF, self.rcvbuf)
        lsock.bind(('127.0.0.1', 0))
        lsock.listen(1)
        lsock.setblocking(False)
        port = lsock.getsockname()[1]
        self.peer = make_peer(port, self.hold_local, self.routes, self.extra)
        self.clock = ScaledWallClock()
        install_clock(self.clock)
        self.wire = Wire(self.clock)
        self.task = asyncio.ensure_future(self.peer._run())
        self.conn, _ = await loop.sock_accept(lsock)
        self.conn.setblocking(False)
        lsock.close()
        self._pump_task = asyncio.ensure_future(self._pump())

    async def wait_for_type(self, kind: int, count: int = 1, timeout: float = 30.0) -> bool:
        end = self.clock.virtual() + timeout
        while self.clock.virtual() < end:
            if len(self.wire.of(kind)) >= count:
                return True
            await asyncio.sleep(0.02)
        return False

    async def establish(self, hold_remote: int) -> float:
        """OPEN + KEEPALIVE from the fake peer; returns the virtual time its KEEPALIVE left"""
        await self.wait_for_type(1)
        await self.send(open_msg(65002, hold_remote))
        return await self.send(KEEPALIVE)

    async def until_closed(self, timeout: float) -> None:
        """waits (virtual seconds) until the real Peer ended its attempt, or the timeout"""
        await asyncio.wait({self.task}, timeout=timeout)
        await asyncio.sleep(0.2)

    def close(self) -> None:
        restore_clock()
        for t in (self.task, getattr(self, '_pump_task', None)):
            if t is not None and not t.done():
                t.cancel()
        if self.conn is not None:
            self.conn.close()
        if self.peer is not None and self.peer.proto is not None:
            try:
                self.peer.proto.close('end of the probe')
            except Exception:
                pass
