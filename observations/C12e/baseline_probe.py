"""baseline_probe.py -- hold timer / keepalive timer / open wait of the UNCHANGED ExaBGP tree.

    cd /tmp/obs_C12 && PYTHONPATH=/tmp/obs_C12/src /venv/bin/python _out/baseline_probe.py

One line per case.  VIOLATION = the property is broken and it reproduces; ok = behaves as the property says;
note = observed, reported for information (outside the letter of the property).  Exit status 1 if any VIOLATION.

T* cases drive the real ReceiveTimer / SendTimer with a fake clock.
S* cases run the real Peer/Protocol over loopback TCP against a scripted peer; every clock (timers' time.time and the
asyncio loop clock) runs 20x faster than real time, all durations below are in those virtual seconds.
"""

from __future__ import annotations

import asyncio
import os
import socket
import sys
import traceback

sys.path.insert(0, os.path.dirname(os.path.abspath(__file__)))

from c12_harness import (  # noqa: E402
    FakeTimeModule,
    KEEPALIVE,
    Session,
    install_clock,
    msg,
    open_msg,
    restore_clock,
    run_scaled,
)

from exabgp.bgp.message import KeepAlive, Notify, _NOP  # noqa: E402
from exabgp.bgp.message.open.holdtime import HoldTime  # noqa: E402
from exabgp.bgp.timer import ReceiveTimer, SendTimer  # noqa: E402

RESULTS: list[tuple[str, str, str]] = []
SLACK = 1.6  # integer seconds of the timers (1) + 0.1 s poll of the peer loop + jitter of the scaled clock


def report(case: str, verdict: str, text: str) -> None:
    RESULTS.append((case, verdict, text))
    print(f'{case:4} {verdict:9} {text}', flush=True)


def _session_name() -> str:
    return 'probe'


EOR = msg(2, b'\x00\x00\x00\x00')

# ============================================================================ timer level


def fires(timer: ReceiveTimer, message=_NOP):
    try:
        timer.check_ka(message)
        return None
    except Notify as n:
        return (n.code, n.subcode)


def t1_granularity() -> None:
    """H=3,4,10: for every phase of the integer clock, poll every 50 ms; when does 4/0 come after the last message"""
    worst_early, worst_late = None, 0.0
    for hold in (3, 4, 10):
        for phase in range(0, 100, 7):
            clock = FakeTimeModule(5000 + phase / 100.0)
            install_clock(clock)
            timer = ReceiveTimer(_session_name, HoldTime(hold), 4, 0)
            assert fires(timer, KeepAlive()) is None
            last = clock.now
            while True:
                clock.now += 0.05
                got = fires(timer)
                if got:
                    silence = clock.now - last
                    if silence <= hold:
                        worst_early = silence
                    worst_late = max(worst_late, silence - hold)
                    break
    restore_clock()
    if worst_early is not None:
        report('T1', 'VIOLATION', f'hold timer fired after a silence of {worst_early:.2f}s <= H')
    else:
        report('T1', 'ok', f'ReceiveTimer never fires for a silence <= H, fires at most {worst_late:.2f}s after H (1s integer clock)')


def t2_clock_back_receive() -> None:
    clock = FakeTimeModule(5000.0)
    install_clock(clock)
    timer = ReceiveTimer(_session_name, HoldTime(3), 4, 0)
    fires(timer, KeepAlive())
    clock.now -= 60  # the wall clock is stepped one minute back (ntpdate, VM resume, admin)
    silent, got = 0.0, None
    while silent < 50 and not got:
        clock.now += 0.5
        silent += 0.5
        got = fires(timer)
    restore_clock()
    if got is None:
        report('T2', 'VIOLATION', f'H=3, wall clock stepped 60s back after a KEEPALIVE: {silent:.0f}s of silence, no 4/0 (fires only after 63s)')
    else:
        report('T2', 'ok', f'clock step back: 4/0 after {silent}s')


def t3_clock_forward_receive() -> None:
    clock = FakeTimeModule(5000.0)
    install_clock(clock)
    timer = ReceiveTimer(_session_name, HoldTime(90), 4, 0)
    fires(timer, KeepAlive())
    clock.now += 0.5  # half a second of real silence
    clock.now += 120  # and the wall clock is stepped two minutes forward
    got = fires(timer)
    restore_clock()
    if got == (4, 0):
        report('T3', 'VIOLATION', 'H=90, wall clock stepped 120s forward 0.5s after a KEEPALIVE: 4/0 for a real silence of 0.5s')
    else:
        report('T3', 'ok', 'clock step forward does not fire the hold timer')


def t4_clock_back_send() -> None:
    clock = FakeTimeModule(5000.0)
    install_clock(clock)
    timer = SendTimer(_session_name, HoldTime(3))
    clock.now += 1
    first = timer.need_ka()
    clock.now -= 60
    waited = 0.0
    while waited < 50:
        clock.now += 0.5
        waited += 0.5
        if timer.need_ka():
            break
    restore_clock()
    if waited >= 50:
        report('T4', 'VIOLATION', f'H=3 (KEEPALIVE every 1s), wall clock stepped 60s back: first={first}, then no KEEPALIVE wanted for {waited:.0f}s (> H/3, > H)')
    else:
        report('T4', 'ok', f'clock step back: KEEPALIVE after {waited}s')


def t5_intervals() -> None:
    bad = []
    for hold in (3, 4, 5, 6, 7, 10, 90, 180, 65535):
        k = HoldTime(hold).keepalive()
        if k <= 0 or k > hold / 3:
            bad.append((hold, k))
        # longest real gap between two need_ka()==True, polled every 50ms, over all phases
        worst = 0.0
        for phase in range(0, 100, 9):
            clock = FakeTimeModule(7000 + phase / 100.0)
            install_clock(clock)
            timer = SendTimer(_session_name, HoldTime(hold))
            start = clock.now
            sent = []
            while len(sent) < 3 and clock.now - start < 4 * k + 5:
                clock.now += 0.05 if hold < 100 else 0.5
                if timer.need_ka():
                    sent.append(clock.now)
            gaps = [b - a for a, b in zip([start] + sent, sent)]
            worst = max(worst, max(gaps))
        if worst > hold / 3 + 1.06:
            bad.append((hold, 'gap', worst))
    restore_clock()
    illegal = [(h, HoldTime(h).keepalive()) for h in (1, 2)]
    if bad:
        report('T5', 'VIOLATION', f'keepalive interval wrong: {bad}')
    else:
        report('T5', 'ok', f'keepalive()=int(H/3) in 1..H/3 for H>=3, gaps <= H/3+1s; (H=1,2 would give {illegal}: never a KEEPALIVE -- see S11 for reachability)')


def t6_hold_zero() -> None:
    clock = FakeTimeModule(5000.0)
    install_clock(clock)
    recv = ReceiveTimer(_session_name, HoldTime(0), 4, 0)
    send = SendTimer(_session_name, HoldTime(0))
    fired, wanted = None, False
    for _ in range(2000):
        clock.now += 50
        fired = fired or fires(recv)
        wanted = wanted or send.need_ka()
    first = fires(recv, KeepAlive())
    second = fires(recv, KeepAlive())
    restore_clock()
    if fired or wanted:
        report('T6', 'VIOLATION', f'H=0: hold timer fired={fired} keepalive wanted={wanted}')
    else:
        report('T6', 'ok', 'H=0: 100000s of silence, the hold timer never fires, no KEEPALIVE wanted')
    report('T6b', 'note', f'H=0: 1st KEEPALIVE received while established -> {first}, 2nd -> {second} (session ended with 2/6, not by the hold timer)')


# ============================================================================ session level


def routes(n: int, path: int = 60) -> str:
    aspath = ' '.join(str(64000 + i) for i in range(path))
    return '\n'.join(
        f'        route 10.{(i >> 8) & 255}.{i & 255}.0/24 next-hop 127.0.0.1 med {i} as-path [ {aspath} ];' for i in range(n)
    )


def session_case(name: str):
    def wrap(func):
        def run() -> None:
            try:
                run_scaled(func())
            except Exception as exc:  # noqa: BLE001
                traceback.print_exc()
                report(name, 'error', f'the probe itself failed: {exc!r}')
            finally:
                restore_clock()

        run.__name__ = func.__name__
        return run

    return wrap


def ka_gaps(times: list[float]) -> list[float]:
    return [round(b - a, 2) for a, b in zip(times, times[1:])]


@session_case('S1')
async def s1_silence_and_cadence():
    """local 9 / remote 3 -> H=3. KEEPALIVE/UPDATE every 2.9s keep it up; then silence -> 4/0 in (H, H+slack]"""
    s = Session(9)
    await s.start()
    last = await s.establish(3)
    early = None
    for what in (KEEPALIVE, EOR, KEEPALIVE):
        await asyncio.sleep(2.9)
        if s.task.done() or s.wire.notification():
            early = s.wire.notification()
            break
        last = await s.send(what)
    await s.until_closed(12)
    notif = s.wire.notification()
    negotiated = int(s.peer.proto.negotiated.holdtime) if s.peer.proto else None
    kas = [t for t, _ in s.wire.of(4)]
    s.close()
    if early:
        report('S1', 'VIOLATION', f'closed {early} although something was received every 2.9s < H=3')
    elif not notif or (notif[1], notif[2]) != (4, 0) or not (3 < notif[0] - last <= 3 + SLACK):
        report('S1', 'VIOLATION', f'H=3: silence began at {last:.2f}, notification {notif}')
    else:
        report('S1', 'ok', f'9 vs 3 -> H=3; KEEPALIVE/UPDATE every 2.9s keeps it up; then 4/0 after {notif[0] - last:.2f}s of silence')
    gaps = ka_gaps(kas)
    if gaps and max(gaps) <= 1 + SLACK:
        report('S2', 'ok', f'H=3: {len(kas)} KEEPALIVEs, gaps {min(gaps)}..{max(gaps)}s (H/3=1 + 1s integer clock)')
    else:
        report('S2', 'VIOLATION', f'H=3: KEEPALIVE gaps {gaps}')
    return negotiated


@session_case('S3')
async def s3_late_confirm():
    """H=9: the peer answers the OPEN at once but its first KEEPALIVE 8s later (legal: < H)"""
    s = Session(9)
    await s.start()
    await s.wait_for_type(1)
    await s.send(open_msg(65002, 9))
    await s.wait_for_type(4)
    await asyncio.sleep(8)
    mine = await s.send(KEEPALIVE)
    for _ in range(8):  # then a model peer, one KEEPALIVE every 3s
        if len(s.wire.of(4)) >= 3:
            break
        await asyncio.sleep(1.5)
        await s.send(KEEPALIVE)
    kas = [t for t, _ in s.wire.of(4)]
    s.close()
    gaps = ka_gaps(kas)
    if gaps and gaps[0] > 9:
        report('S3', 'VIOLATION', f'H=9: KEEPALIVEs of ExaBGP at {[round(k, 2) for k in kas]}: {gaps[0]}s (> H) between the one of OPENCONFIRM and the first periodic one; the send timer starts at ESTABLISHED, {kas[1] - mine:.2f}s after the peer confirmed')
    elif gaps and gaps[0] > 3 + SLACK:
        report('S3', 'VIOLATION', f'H=9: first two KEEPALIVEs {gaps[0]}s apart (> H/3)')
    else:
        report('S3', 'ok', f'H=9: KEEPALIVE gaps {gaps}')


async def _hold_zero(local: int, remote: int, name: str):
    s = Session(local)
    await s.start()
    await s.establish(remote)
    await asyncio.sleep(40)
    kas = len(s.wire.of(4))
    notif = s.wire.notification()
    fsm = str(s.peer.fsm)
    alive = not s.task.done()
    negotiated = int(s.peer.proto.negotiated.holdtime) if s.peer.proto else None
    s.close()
    if negotiated == 0 and kas == 1 and notif is None and alive:
        report(name, 'ok', f'{local} vs {remote} -> H=0: 40s of silence, still up, only the KEEPALIVE of OPENCONFIRM was sent')
    else:
        report(name, 'VIOLATION', f'{local} vs {remote} -> H={negotiated}: keepalives={kas} notification={notif} alive={alive} fsm={fsm}')


@session_case('S4a')
async def s4a():
    await _hold_zero(0, 90, 'S4a')


@session_case('S4b')
async def s4b():
    await _hold_zero(90, 0, 'S4b')


@session_case('S5')
async def s5_openwait():
    from exabgp.environment import getenv

    saved = getenv().bgp.openwait
    getenv().bgp.openwait = 4
    try:
        out = []
        for label, first in (('nothing', b''), ('half an OPEN', open_msg(65002, 9)[:25]), ('a KEEPALIVE', KEEPALIVE)):
            s = Session(9)
            await s.start()
            await s.wait_for_type(1)
            began = s.wire.of(1)[0][0]
            if first:
                await s.send(first)
            await s.until_closed(10)
            out.append((label, s.wire.notification(), began))
            s.close()
    finally:
        getenv().bgp.openwait = saved
    bad = []
    for label, notif, began in out:
        if label == 'a KEEPALIVE':
            if not notif or (notif[1], notif[2]) != (5, 1):
                bad.append((label, notif))
        elif not notif or (notif[1], notif[2]) != (5, 1) or not (3.9 <= notif[0] - began <= 4 + 1.0):
            bad.append((label, notif, began))
    if bad:
        report('S5', 'VIOLATION', f'openwait=4: {bad}')
    else:
        text = ', '.join(f'{label}: 5/1 after {notif[0] - began:.2f}s' for label, notif, began in out)
        report('S5', 'ok', f'openwait=4, peer sends {text}')


@session_case('S6')
async def s6_openconfirm():
    s = Session(9)
    await s.start()
    await s.wait_for_type(1)
    sent = await s.send(open_msg(65002, 3))
    await s.until_closed(10)
    notif = s.wire.notification()
    s.close()
    if notif and (notif[1], notif[2]) == (4, 0) and 2.9 <= notif[0] - sent <= 3 + 1.0:
        report('S6', 'ok', f'OPENCONFIRM, H=3, no KEEPALIVE from the peer: 4/0 after {notif[0] - sent:.2f}s')
    else:
        report('S6', 'VIOLATION', f'OPENCONFIRM, H=3, no KEEPALIVE from the peer: {notif} (OPEN sent at {sent:.2f})')


@session_case('S7')
async def s7_blocked_write():
    """the peer stops reading AND writing (hung process) while ExaBGP still has UPDATEs to send"""
    s = Session(3, routes(600), rcvbuf=2048)
    await s.start()
    await s.wait_for_type(1)
    # a small send buffer stands for "more to send than the socket buffers take" (with the default buffers the same
    # happens with a table of a few MB); nothing of exabgp is changed
    s.peer.proto.connection.io.setsockopt(socket.SOL_SOCKET, socket.SO_SNDBUF, 4096)
    await s.establish(3)
    await s.wait_for_type(4)
    s.reading = False
    stopped = s.clock.virtual()
    await s.until_closed(30)
    waited = s.clock.virtual() - stopped
    alive = not s.task.done()
    fsm = int(s.peer.fsm.state) if hasattr(s.peer.fsm, 'state') else str(s.peer.fsm)
    updates, kas = s.peer.stats['send-update'], s.peer.stats['send-keepalive']
    s.reading = True  # the peer wakes up
    await s.until_closed(8)
    notif = s.wire.notification()
    s.close()
    if alive:
        report('S7', 'VIOLATION', f'H=3, peer neither reads nor writes for {waited:.0f}s: no 4/0, peer task still in _main (fsm {fsm}), blocked in a write after {updates} UPDATEs / {kas} KEEPALIVEs; once the peer reads again: {notif and (round(notif[0] - stopped, 1), notif[1], notif[2])}')
    else:
        report('S7', 'ok', f'blocked write: closed, {notif}')


@session_case('S8')
async def s8_slow_reader():
    """the peer is alive (a KEEPALIVE every second) but drains its socket slowly: 1 KB every second"""
    s = Session(3, routes(600), rcvbuf=2048)
    await s.start()
    await s.wait_for_type(1)
    s.peer.proto.connection.io.setsockopt(socket.SOL_SOCKET, socket.SO_SNDBUF, 4096)
    s.read_chunk = 1024
    s.read_pause = 1.0
    await s.establish(3)
    samples: list[tuple[float, int]] = []
    begin = s.clock.virtual()
    next_ka = begin + 1
    while s.clock.virtual() - begin < 25 and not s.task.done():
        await asyncio.sleep(0.05)
        now = s.clock.virtual()
        count = s.peer.stats['send-keepalive']
        if not samples or samples[-1][1] != count:
            samples.append((now, count))
        if now >= next_ka:
            next_ka += 1
            await s.send(KEEPALIVE)
    notif = s.wire.notification()
    updates = s.peer.stats['send-update']
    s.close()
    times = [t for t, _ in samples]
    gaps = ka_gaps(times)
    if gaps and max(gaps) > 1 + SLACK:
        report('S8', 'VIOLATION', f'H=3, slow but alive reader: KEEPALIVEs handed to the socket {max(gaps)}s apart (H/3=1; gaps {gaps}); {updates} UPDATEs went out meanwhile; notification {notif}')
    else:
        report('S8', 'ok', f'slow reader: KEEPALIVE gaps {gaps}')


@session_case('S8b')
async def s8b_slow_reader_silent():
    """the same slow reader, which sends nothing at all once established: when is the hold timer noticed"""
    s = Session(3, routes(600), rcvbuf=2048)
    await s.start()
    await s.wait_for_type(1)
    s.peer.proto.connection.io.setsockopt(socket.SOL_SOCKET, socket.SO_SNDBUF, 4096)
    s.read_chunk = 1024
    s.read_pause = 1.0
    last = await s.establish(3)
    raised = None
    while s.clock.virtual() - last < 40:
        await asyncio.sleep(0.05)
        if s.peer.stats.get('send-notification', 0) or s.task.done():
            raised = s.clock.virtual()
            break
    s.close()
    if raised is None:
        report('S8b', 'VIOLATION', 'H=3, slow silent reader: no 4/0 raised in 40s')
    elif raised - last > 3 + SLACK:
        report('S8b', 'VIOLATION', f'H=3, peer silent but draining 1 KB/s: 4/0 raised {raised - last:.2f}s after its last message (the timers are looked at once per turn of _main, a turn is up to 25 writes)')
    else:
        report('S8b', 'ok', f'slow silent reader: 4/0 raised after {raised - last:.2f}s')


@session_case('S9')
async def s9_trickle():
    s = Session(3)
    await s.start()
    last = await s.establish(3)
    await asyncio.sleep(0.5)
    sent_bytes = 0
    for octet in KEEPALIVE[:18]:  # one octet every 0.5s, never a whole message
        if s.task.done() or s.wire.notification():
            break
        await s.send(bytes([octet]))
        sent_bytes += 1
        await asyncio.sleep(0.5)
    await s.until_closed(3)
    notif = s.wire.notification()
    s.close()
    report('S9', 'note', f'H=3, one octet of a KEEPALIVE every 0.5s ({sent_bytes} sent): {notif and (round(notif[0] - last, 2), notif[1], notif[2])} -- octets of an unfinished message do not restart the hold timer (as RFC 4271: only KEEPALIVE/UPDATE do)')


@session_case('S10')
async def s10_clock_step_back_session():
    s = Session(3)
    await s.start()
    last = await s.establish(3)
    await s.wait_for_type(4, 2)
    s.clock.offset -= 60  # date -s / ntp step, one minute back
    stepped = s.clock.virtual()
    before = len(s.wire.of(4))
    await s.until_closed(30)
    waited = s.clock.virtual() - stepped
    after = len(s.wire.of(4))
    notif = s.wire.notification()
    alive = not s.task.done()
    s.close()
    if alive and notif is None:
        report('S10', 'VIOLATION', f'H=3, established, wall clock stepped 60s back, silent peer: after {waited:.0f}s no 4/0 and {after - before} KEEPALIVE sent (the peer would have closed on its own hold timer)')
    else:
        report('S10', 'ok', f'clock step back: notification {notif}, keepalives {after - before}')


@session_case('S11')
async def s11_illegal_hold():
    out = []
    for hold in (1, 2):
        s = Session(9)
        await s.start()
        await s.wait_for_type(1)
        await s.send(open_msg(65002, hold))
        await s.send(KEEPALIVE)
        await s.until_closed(6)
        out.append((hold, s.wire.notification()))
        s.close()
    refused = []
    from c12_harness import make_peer

    for hold in (1, 2):
        try:
            make_peer(1, hold)
            refused.append((hold, 'accepted'))
        except Exception:  # noqa: BLE001
            refused.append((hold, 'refused'))
    if all(n and (n[1], n[2]) == (2, 6) for _, n in out) and all(r == 'refused' for _, r in refused):
        report('S11', 'ok', f'peer OPEN with hold 1, 2 -> 2/6 {[(h, n[1], n[2]) for h, n in out]}; configuration hold-time 1, 2 -> {refused}')
    else:
        report('S11', 'VIOLATION', f'illegal hold times: wire {out}, configuration {refused}')


@session_case('S12')
async def s12_clock_forward_session():
    s = Session(90)
    await s.start()
    await s.establish(90)
    await s.wait_for_type(4, 1)
    await asyncio.sleep(1)
    last = await s.send(KEEPALIVE)
    await asyncio.sleep(0.3)
    s.clock.offset += 120
    await s.until_closed(3)
    notif = s.wire.notification()
    s.close()
    if notif and (notif[1], notif[2]) == (4, 0):
        report('S12', 'VIOLATION', f'H=90, wall clock stepped 120s forward: 4/0 {notif[0] - last:.2f}s after the last KEEPALIVE of the peer')
    else:
        report('S12', 'ok', f'clock step forward: {notif}')


def main() -> int:
    for case in (t1_granularity, t2_clock_back_receive, t3_clock_forward_receive, t4_clock_back_send, t5_intervals, t6_hold_zero):
        try:
            case()
        except Exception as exc:  # noqa: BLE001
            traceback.print_exc()
            report(case.__name__[:2].upper(), 'error', repr(exc))
            restore_clock()
    for case in (s1_silence_and_cadence, s3_late_confirm, s4a, s4b, s5_openwait, s6_openconfirm, s7_blocked_write, s8_slow_reader, s8b_slow_reader_silent, s9_trickle, s10_clock_step_back_session, s11_illegal_hold, s12_clock_forward_session):
        case()
    violations = [r for r in RESULTS if r[1] == 'VIOLATION']
    errors = [r for r in RESULTS if r[1] == 'error']
    print(f'-- {len(violations)} violation(s), {len(errors)} probe error(s), {len(RESULTS)} lines')
    return 1 if violations else (2 if errors else 0)


if __name__ == '__main__':
    sys.exit(main())
