"""Reproducers for C04 violations on the UNCHANGED tree.

Run: cd <tree> && PYTHONPATH=<tree>/src /venv/bin/python _out/baseline_probe.py
Exit status 1 while at least one of the problems exists, 0 when none does.

Every case drives the real OutgoingRIB / UpdateCollection.messages() (B10 also the real
Peer._send_route_updates and Protocol.new_update_generator), replays the wire messages, in order,
into a model of the peer (peermodel.Peer) and compares with OutgoingRIB.cached_routes(), which is what
`show adj-rib out` prints.
"""

from __future__ import annotations

import asyncio
import os
import sys
from collections import defaultdict
from types import SimpleNamespace

sys.path.insert(0, os.path.dirname(os.path.abspath(__file__)))
from peermodel import Peer as PeerModel, Session, negotiated, route, wroute, V4, V6  # noqa: E402

from exabgp.protocol.family import AFI, SAFI  # noqa: E402
from exabgp.protocol.ip import IP  # noqa: E402
from exabgp.rib.outgoing import OutgoingRIB  # noqa: E402
from exabgp.rib.route import Route  # noqa: E402

FOUND: list[str] = []


def report(tag: str, title: str, s: Session | None, problems: list[str], tail: int = 6) -> None:
    state = 'PROBLEM' if problems else 'ok'
    print('%-8s %s %s' % (state, tag, title))
    if problems:
        FOUND.append(tag)
        if s is not None:
            for line in s.peer.log[-tail:]:
                print('           wire> %s' % line[:150])
        for p in problems:
            print('           %s' % p[:220])


A = '10.0.0.0/24'

# ---------------------------------------------------------------------------------------------------------
# B1  announce A/x, A/y, A/x inside one flush window: the peer ends on y, ExaBGP reports x
s = Session()
s.rib.add_to_rib(route(A + ' next-hop 1.1.1.1 med 1'))
s.rib.add_to_rib(route(A + ' next-hop 1.1.1.1 med 2'))
s.rib.add_to_rib(route(A + ' next-hop 1.1.1.1 med 1'))
s.drain()
report('B1', 'announce x, y, x of one prefix in one flush window', s, s.compare())

# B2  announce A/x, A/y then withdraw A inside one window: the withdraw cancels only y, x is sent after it
s = Session()
s.rib.add_to_rib(route(A + ' next-hop 1.1.1.1 med 1'))
s.rib.add_to_rib(route(A + ' next-hop 1.1.1.1 med 2'))
s.rib.del_from_rib(wroute(A))
s.drain()
report('B2', 'announce x, y then withdraw in one flush window: route resurrected', s, s.compare())

# B2b the same through a session restart: replace_restart() re-queues the cached x, the API sends y then withdraws
s = Session()
s.rib.add_to_rib(route(A + ' next-hop 1.1.1.1 med 1'))
s.drain()
s.reconnect()
s.established()
s.rib.add_to_rib(route(A + ' next-hop 1.1.1.1 med 2'))
s.rib.del_from_rib(wroute(A))
s.drain()
report('B2b', 'session restart, then announce y + withdraw before the first flush', s, s.compare())

# ---------------------------------------------------------------------------------------------------------
# B3  ADD-PATH not negotiated, two path ids of one prefix: two RIB entries, one route on the wire
s = Session()
s.rib.add_to_rib(route(A + ' next-hop 1.1.1.1 path-information 0.0.0.1 med 1'))
s.rib.add_to_rib(route(A + ' next-hop 1.1.1.1 path-information 0.0.0.2 med 2'))
s.drain()
s.rib.del_from_rib(wroute(A + ' path-information 0.0.0.2'))
s.drain()
report('B3', 'two path-information of one prefix, ADD-PATH not negotiated, withdraw one', s, s.compare())

# B4  ADD-PATH negotiated: a route without path-information and one with 0.0.0.0 are the same NLRI on the wire
s = Session(neg=negotiated(addpath_send=[V4]))
s.rib.add_to_rib(route(A + ' next-hop 1.1.1.1 med 1'))
s.rib.add_to_rib(route(A + ' next-hop 1.1.1.1 path-information 0.0.0.0 med 2'))
s.drain()
s.rib.del_from_rib(wroute(A + ' path-information 0.0.0.0'))
s.drain()
report('B4', 'no path-information vs path-information 0.0.0.0, ADD-PATH negotiated', s, s.compare())

# B5  family configured but not negotiated: messages() drops the route silently, the cache reports it
s = Session(rib=OutgoingRIB(True, {V4, V6}), neg=negotiated(families=[V4]))
s.rib.add_to_rib(route('2001:db8::/32 next-hop 2001::1'))
s.drain()
report('B5', 'route of a configured family the peer did not negotiate', s, s.compare())

# B6  paths-limit: the route over the limit is dropped in updates() after it was put in the cache
neg = negotiated(addpath_send=[V4])
neg.paths_limit = {V4: 1}
s = Session(neg=neg)
s.rib.add_to_rib(route(A + ' next-hop 1.1.1.1 path-information 0.0.0.1 med 1'))
s.rib.add_to_rib(route(A + ' next-hop 1.1.1.1 path-information 0.0.0.2 med 2'))
s.drain()
report('B6', 'paths-limit 1, two paths of one prefix', s, s.compare())

# ---------------------------------------------------------------------------------------------------------
# B7  labelled routes: the label is not in the index, nor in what in_cache() compares: a new label is never sent
MPLS4 = (AFI.ipv4, SAFI.nlri_mpls)
VPN4 = (AFI.ipv4, SAFI.mpls_vpn)
s = Session(rib=OutgoingRIB(True, {V4, MPLS4, VPN4}), neg=negotiated(families=[V4, MPLS4, VPN4]))
s.rib.add_to_rib(route(A + ' next-hop 1.1.1.1 label 100 med 1'))
s.rib.add_to_rib(route(A + ' next-hop 1.1.1.1 rd 65000:1 label 100 med 1'))
s.drain()
before = len(s.peer.log)
s.rib.add_to_rib(route(A + ' next-hop 1.1.1.1 label 200 med 1'))
s.rib.add_to_rib(route(A + ' next-hop 1.1.1.1 rd 65000:1 label 200 med 1'))
s.drain()
problems = []
if len(s.peer.log) == before:
    problems.append('announce of the same prefix with label 200 put nothing on the wire (suppressed by in_cache)')
    problems.append('peer and `show adj-rib out` both keep: %s' % [r.extensive() for r in s.rib.cached_routes()])
report('B7', 'label change of a labelled / VPN route: the stale announcement survives the later announce', s, problems)

# B8  attributes which leave no room for the NLRI: nothing sent (log.critical only), route reported
s = Session()
comms = ' '.join('65000:%d' % i for i in range(1, 1011))
for i in range(2):
    s.rib.add_to_rib(route('10.0.%d.0/24 next-hop 1.1.1.1 community [%s]' % (i, comms)))
    s.rib.add_to_rib(route('2001:db8:%x::/48 next-hop 2001::1 community [%s]' % (i, comms)))
s.drain()
problems = [p[:90] + ' ...' for p in s.compare()]
print('         (B8: %d of 4 routes reached the peer)' % len(s.peer.view()))
report('B8', '1010 communities: IPv4 routes fit, IPv6 (MP_REACH) do not and are dropped silently', None, problems)

# B9  reload which changes only the attributes of a configured route: replace_reload() ignores it
s = Session()
old = [route(A + ' next-hop 1.1.1.1 med 1')]
new = [route(A + ' next-hop 1.1.1.1 med 2')]
for r in old:
    s.rib.add_to_rib(r)
s.drain()
before = len(s.peer.log)
s.rib.replace_reload(old, new)
s.drain()
problems = []
if len(s.peer.log) == before:
    problems.append('configuration now says %s' % new[0].extensive())
    problems.append('nothing sent; peer and adj-rib-out keep %s' % [r.extensive() for r in s.rib.cached_routes()])
report('B9', 'reload (replace_reload) with the same prefix and other attributes', s, problems)

# ---------------------------------------------------------------------------------------------------------
# B10 first flush window of a session (include_withdraw False): flush + withdraw
#     driven through the real Peer._send_route_updates / Protocol.new_update_generator


class Wire:
    def __init__(self, model):
        self.model = model

    def session(self):
        return 'probe'

    async def writer_async(self, raw):
        self.model.receive(raw)


async def b10() -> list[str]:
    from exabgp.reactor.peer.peer import Peer
    from exabgp.reactor.protocol import Protocol

    neg = negotiated()
    rib = OutgoingRIB(True, {V4, V6})
    model = PeerModel(neg)
    neighbor = SimpleNamespace(rib=SimpleNamespace(outgoing=rib), group_updates=True, api={}, rate_limit=0)
    peer = SimpleNamespace(neighbor=neighbor, stats=defaultdict(int), id=lambda: 'peer-probe')
    proto = Protocol.__new__(Protocol)
    proto.peer, proto.neighbor, proto.negotiated, proto.connection = peer, neighbor, neg, Wire(model)
    peer.proto = proto

    # the routes ExaBGP holds from before (API announces), session is down
    rib.add_to_rib(route('10.0.0.0/24 next-hop 1.1.1.1 med 1'))
    rib.add_to_rib(route('10.0.1.0/24 next-hop 1.1.1.1 med 1'))
    rib.reset()  # Peer._reset(): session lost
    # while the session is down (or before the first turn of the loop): flush, then withdraw
    rib.resend(True)  # `flush adj-rib out`
    rib.del_from_rib(wroute('10.0.1.0/24'))  # `withdraw route 10.0.1.0/24`
    # Peer._main: session established
    rib.replace_restart([], [])
    new_routes, include_withdraw = None, False
    for _ in range(4):
        new_routes, include_withdraw = await Peer._send_route_updates(peer, new_routes, include_withdraw, 25)
    for line in model.log:
        print('           wire> %s' % line[:150])
    held = sorted(v[0] for v in model.view().values())
    reported = sorted(str(r.nlri) for r in rib.cached_routes())
    if held != reported:
        return ['peer holds %s, reported Adj-RIB-Out %s' % (held, reported)]
    return []


report('B10', 'flush + withdraw before the first flush window of a session', None, asyncio.run(b10()))

# ---------------------------------------------------------------------------------------------------------
# B11 EVPN IP prefix route (type 5): label / gateway are in the RIB index, not in the route key (RFC 9136 3.1)
from exabgp.bgp.message.update.nlri.evpn.prefix import Prefix  # noqa: E402
from exabgp.bgp.message.update.nlri.qualifier import ESI, EthernetTag, Labels, RouteDistinguisher  # noqa: E402
from exabgp.bgp.message import Message  # noqa: E402
from exabgp.bgp.message.update.collection import UpdateCollection  # noqa: E402

EV = (AFI.l2vpn, SAFI.evpn)
rd = RouteDistinguisher.make_from_elements('31.31.31.31', 310)


def prefix5(label: int) -> Prefix:
    return Prefix.make_prefix(
        rd, ESI.make_default(), EthernetTag.make_etag(0), Labels.make_labels([label], True),
        IP.from_string('10.1.1.0'), 24, IP.from_string('0.0.0.0'),
    )  # fmt: skip


attrs = route(A + ' next-hop 1.1.1.1 med 1').attributes
nh = IP.from_string('1.1.1.1')
rib = OutgoingRIB(True, {EV})
neg = negotiated(families=[EV])
rib.add_to_rib(Route(prefix5(100), attrs, nexthop=nh))
rib.add_to_rib(Route(prefix5(200), attrs, nexthop=nh))
table: dict[tuple, str] = {}
wire: list[str] = []


def key5(nlri) -> tuple:  # RFC 9136 3.1: RD, Ethernet Tag ID, IP prefix length and IP prefix
    return (str(nlri.rd), str(nlri.etag), nlri.iplen, str(nlri.ip))


def pump() -> None:
    for update in rib.updates(True):
        for raw in update.messages(neg, True):
            assert raw[18] == Message.CODE.UPDATE
            parsed = UpdateCollection.unpack_message(raw[19:], neg)
            for n in parsed.withdraws:
                table.pop(key5(n), None)
                wire.append('withdraw %s' % n)
            for r in parsed.announces:
                table[key5(r.nlri)] = str(r.nlri)
                wire.append('announce %s' % r.nlri)


pump()
rib.del_from_rib(Route(prefix5(100), attrs, nexthop=nh))
pump()
for line in wire:
    print('           wire> %s' % line[:150])
reported = [str(r.nlri) for r in rib.cached_routes()]
problems = []
if len(table) != len(reported):
    problems.append('peer holds %d route(s) %s, reported %d: %s' % (len(table), list(table.values()), len(reported), reported))
report('B11', 'EVPN type 5: same route key with label 100 and 200, withdraw the first', None, problems)

# ---------------------------------------------------------------------------------------------------------
print()
if FOUND:
    print('%d problem(s) reproduced on this tree: %s' % (len(FOUND), ' '.join(FOUND)))
    sys.exit(1)
print('no problem reproduced')
sys.exit(0)
