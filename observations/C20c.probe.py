"""Baseline probe for C20 (healthcheck rise/fall hysteresis, valid commands, withdraw on exit).

Runs against the UNCHANGED tree:  cd <tree> && PYTHONPATH=<tree>/src /venv/bin/python _out/baseline_probe.py
Exits 1 while at least one of the problems below is still there, 0 when none is.

Every probe drives the real exabgp.application.healthcheck.loop()/main() and, for the daemon side, the real
API.process -> dispatch_v6 -> v6_announce/v6_withdraw -> api_route -> Configuration.announce_route path
(see hc_harness.py and daemon_side.py next to this file for the thin stand-ins used for clock, check() and reactor).
"""
from __future__ import annotations

import argparse
import io
import os
import signal
import sys
import threading
from ipaddress import ip_address, ip_network
from unittest.mock import patch

sys.path.insert(0, os.path.dirname(os.path.abspath(__file__)))
from hc_harness import make_options, run  # noqa: E402
from daemon_side import Daemon  # noqa: E402

from exabgp.application import healthcheck as hc  # noqa: E402

found = []


def report(name, problem, detail):
    print(f'[{name}] {"PROBLEM" if problem else "ok"}: {detail}')
    if problem:
        found.append(name)


# ---------------------------------------------------------------------------------------------------------------
# B1  --neighbor given twice: the lines start with "peer A, peer B announce ..." which the v6 dispatcher rejects,
#     so the daemon never learns (nor withdraws) anything.
def probe_multi_neighbor():
    options = make_options(rise=1, fall=1, neighbors=[ip_address('10.0.0.2'), ip_address('10.0.0.3')])
    rounds, _ = run(options, [True, False])
    daemon = Daemon()
    rejected = []
    for lines in rounds:
        for line in lines:
            answer = daemon.feed(line)
            print(f'      helper wrote: {line!r} -> daemon answered {answer}')
            if answer[0] != 'done':
                rejected.append(line)
    rib = {peer: sorted(routes) for peer, routes in daemon.rib().items()}
    # control: the same with one neighbor is accepted
    control = Daemon().feed('peer 10.0.0.2 announce route 10.0.0.1/32 next-hop self med 100')
    report(
        'B1 multi-neighbor',
        bool(rejected) and control[0] == 'done',
        f'{len(rejected)} of {sum(len(r) for r in rounds)} lines rejected by the daemon (control single neighbor: {control[0]}); rib after all the lines were fed: {rib}',
    )


# ---------------------------------------------------------------------------------------------------------------
# B2  ^C / SIGINT while the check command is running (not while sleeping): KeyboardInterrupt leaves loop() without
#     the withdraw. Real check(), real signal.
def probe_sigint_during_check():
    options = make_options(rise=1, fall=1, command='sleep 1', timeout=5, interval=0.01, fast=0.01)
    out = io.StringIO()
    calls = {'n': 0}
    real_popen = hc.subprocess.Popen

    def popen(*args, **kwargs):
        calls['n'] += 1
        process = real_popen(*args, **kwargs)
        if calls['n'] == 2:
            # the second check is now running: the operator hits ^C 0.2s into it
            threading.Timer(0.2, os.kill, (os.getpid(), signal.SIGINT)).start()
        return process

    previous_int = signal.signal(signal.SIGINT, signal.default_int_handler)
    previous_term = signal.getsignal(signal.SIGTERM)
    previous_alarm = signal.getsignal(signal.SIGALRM)
    outcome = 'loop() returned'
    try:
        with patch.object(sys, 'stdout', out), patch.object(hc.subprocess, 'Popen', popen):
            try:
                hc.loop(options)
            except KeyboardInterrupt:
                outcome = 'KeyboardInterrupt escaped loop()'
    finally:
        signal.alarm(0)
        signal.signal(signal.SIGINT, previous_int)
        signal.signal(signal.SIGTERM, previous_term)
        signal.signal(signal.SIGALRM, previous_alarm)
    lines = [line for line in out.getvalue().split('\n') if line]
    for line in lines:
        print(f'      helper wrote: {line!r}')
    announced = any(' announce ' in line for line in lines)
    withdrawn = any(' withdraw ' in line for line in lines)
    report(
        'B2 SIGINT during check',
        announced and not withdrawn,
        f'{outcome}; announced={announced} withdrawn={withdrawn} (expected a withdraw for 10.0.0.1/32 before exiting)',
    )


# ---------------------------------------------------------------------------------------------------------------
# B3  any exception inside an iteration (here: fork failing with EAGAIN when the check is started, simulated on the
#     second Popen) ends main() with exit code 1 and the up announcement is left in the daemon: no withdraw.
def probe_exception_in_iteration():
    options = make_options(rise=1, fall=1, command='true', pid=None, user=None, group=None, debug=False, silent=True,
                           name=None, syslog_facility='daemon', no_syslog=True, deaggregate_networks=False, start_ip=0)
    out = io.StringIO()
    calls = {'n': 0}
    real_popen = hc.subprocess.Popen

    def popen(*args, **kwargs):
        calls['n'] += 1
        if calls['n'] == 2:
            raise BlockingIOError(11, 'Resource temporarily unavailable')
        return real_popen(*args, **kwargs)

    previous_term = signal.getsignal(signal.SIGTERM)
    previous_alarm = signal.getsignal(signal.SIGALRM)
    code = None
    try:
        with patch.object(sys, 'stdout', out), patch.object(hc, 'parse', lambda: options), patch.object(
            hc, 'setup_logging', lambda *a, **k: None
        ), patch.object(hc.subprocess, 'Popen', popen), patch.object(hc.time, 'sleep', lambda t: None), patch.object(
            hc.logger, 'exception', lambda *a, **k: None
        ):
            try:
                hc.main()
            except SystemExit as exc:
                code = exc.code
    finally:
        signal.alarm(0)
        signal.signal(signal.SIGTERM, previous_term)
        signal.signal(signal.SIGALRM, previous_alarm)
    lines = [line for line in out.getvalue().split('\n') if line]
    for line in lines:
        print(f'      helper wrote: {line!r}')
    announced = any(' announce ' in line for line in lines)
    withdrawn = any(' withdraw ' in line for line in lines)
    report(
        'B3 exception in an iteration',
        announced and not withdrawn and code == 1,
        f'main() exited with {code}; announced={announced} withdrawn={withdrawn} (expected a withdraw before exiting)',
    )


# ---------------------------------------------------------------------------------------------------------------
# B4  metric arithmetic is unbounded: each of --up-metric 4294967295 and --increase 1 is a valid value, the second
#     IP gets "med 4294967296" which the daemon refuses; a negative --increase gives "med -20". The helper does not
#     look at the answer, so these IPs are silently never announced.
def probe_metric_range():
    ips = [ip_network('10.0.0.1/32'), ip_network('10.0.0.2/32'), ip_network('10.0.0.3/32')]
    bad = []
    for name, over in (
        ('--up-metric 4294967295 --increase 1', dict(up_metric=4294967295, increase=1)),
        ('--up-metric 100 --increase -60', dict(up_metric=100, increase=-60)),
    ):
        rounds, _ = run(make_options(ips=list(ips), rise=1, fall=1, **over), [True])
        daemon = Daemon()
        for line in rounds[0]:
            answer = daemon.feed(line)
            print(f'      {name}: helper wrote {line!r} -> daemon answered {answer[0]} {answer[1][:60]!r}')
            if answer[0] != 'done':
                bad.append(line)
        print(f'      {name}: rib holds {sorted(daemon.rib()["10.0.0.2"])}')
    report('B4 metric out of range', bool(bad), f'{len(bad)} lines written by the helper are not valid commands: {bad}')


# ---------------------------------------------------------------------------------------------------------------
# B5  (daemon side) dual-stack service, default "next-hop self", "peer *": one neighbor has an IPv4 session, the
#     other an IPv6 session, both negotiate ipv4+ipv6 unicast. The IPv6 line raises TypeError at the neighbor whose
#     session has the other family; the loop over the neighbors is aborted there, so whether the IPv6-session
#     neighbor (for which the route is fine) gets the route depends on the ORDER of the neighbors in the
#     configuration, and the helper is answered "error" even when the route was installed.
NEIGHBOR_V4 = """
neighbor 10.0.0.3 {
    router-id 1.2.3.4; local-address 10.0.0.1; local-as 65000; peer-as 65002;
    family { ipv4 unicast; ipv6 unicast; }
    api { processes [ hc ]; }
}
"""
NEIGHBOR_V6 = """
neighbor 2001:db8::2 {
    router-id 1.2.3.4; local-address 2001:db8::1; local-as 65000; peer-as 65001;
    family { ipv4 unicast; ipv6 unicast; }
    api { processes [ hc ]; }
}
"""
PROCESS = 'process hc { run /bin/true; encoder json; }\n'


def probe_dual_stack_next_hop_self():
    options = make_options(ips=[ip_network('10.0.0.1/32'), ip_network('2001:db8::5/128')], rise=1, fall=1)
    rounds, _ = run(options, [True])
    outcome = {}
    for order, conf in (('v6 neighbor first', PROCESS + NEIGHBOR_V6 + NEIGHBOR_V4), ('v4 neighbor first', PROCESS + NEIGHBOR_V4 + NEIGHBOR_V6)):
        daemon = Daemon(conf)
        answers = []
        for line in rounds[0]:
            answer = daemon.feed(line)
            answers.append(answer[0])
            print(f'      [{order}] helper wrote {line!r} -> daemon answered {answer[0]} {answer[1][:90]!r}')
        rib = {peer: sorted(routes) for peer, routes in daemon.rib().items()}
        print(f'      [{order}] rib: {rib}')
        outcome[order] = (answers, rib)
    a, b = outcome['v6 neighbor first'], outcome['v4 neighbor first']
    partial = a[0][1] == 'error' and '2001:db8::5/128' in a[1]['2001:db8::2']
    report(
        'B5 dual-stack next-hop self',
        a[1] != b[1] or partial,
        f'same lines, different adj-rib-out depending on neighbor order: {a[1]} vs {b[1]}; answered error although installed: {partial}',
    )


if __name__ == '__main__':
    for probe in (
        probe_multi_neighbor,
        probe_sigint_during_check,
        probe_exception_in_iteration,
        probe_metric_range,
        probe_dual_stack_next_hop_self,
    ):
        try:
            probe()
        except Exception as exc:  # a probe which cannot run is reported, it does not hide the others
            print(f'[{probe.__name__}] could not run: {type(exc).__name__}: {exc}')
    print()
    print('problems reproduced:', ', '.join(found) if found else 'none')
    sys.exit(1 if found else 0)
