"""helpers for baseline_probe.py (reads the tree, never writes to it)"""
import glob, os, re, struct
import exabgp.bgp.message.update  # noqa: registers everything
from exabgp.bgp.message import Action
from exabgp.bgp.message.open.capability.negotiated import Negotiated
from exabgp.bgp.message.open.asn import ASN
from exabgp.bgp.message.update.nlri.nlri import NLRI
from exabgp.bgp.message.update.attribute.attribute import Attribute
from exabgp.protocol.family import AFI, SAFI

ROOT = os.path.dirname(os.path.dirname(os.path.abspath(__file__)))


def neg(addpath=False, asn4=True, aigp=True):
    n = Negotiated._create_unset()
    n.asn4 = asn4
    n.aigp = aigp
    n.local_as = ASN(65000)
    n.peer_as = ASN(65001)
    n.neighbor = None
    if addpath:
        for fam in NLRI.known_families():
            n.addpath._send[fam] = True
            n.addpath._receive[fam] = True
    n.families = NLRI.known_families()
    return n


NEG = neg()
NEG_AP = neg(addpath=True)


def unpack_nlri(afi, safi, data, addpath=False, action=Action.ANNOUNCE):
    n = NEG_AP if addpath else NEG
    return NLRI.unpack_nlri(AFI.from_int(afi), SAFI.from_int(safi), bytes(data), action, addpath, n)


def pack_nlri(nlri, addpath=False):
    return bytes(nlri.pack_nlri(NEG_AP if addpath else NEG))


def corpus_updates():
    """every UPDATE body (after the 19 byte header) found in qa/encoding/*.ci and qa/decoding/*"""
    out = []
    for path in sorted(glob.glob(os.path.join(ROOT, 'qa/encoding/*.ci'))):
        for line in open(path):
            m = re.match(r'^\w+:raw:([0-9A-Fa-f:]+)\s*$', line)
            if not m:
                continue
            parts = m.group(1).split(':')
            if len(parts) < 4 or parts[2] != '02':
                continue
            out.append((os.path.basename(path), bytes.fromhex(''.join(parts[3:]))))
    for path in sorted(glob.glob(os.path.join(ROOT, 'qa/decoding/*'))):
        lines = open(path).read().split('\n')
        if len(lines) < 2 or not lines[0].startswith('update'):
            continue
        try:
            out.append((os.path.basename(path), bytes.fromhex(lines[1].strip())))
        except ValueError:
            pass
    return out


def split_update(body):
    wl = struct.unpack('!H', body[:2])[0]
    withdrawn = body[2:2 + wl]
    al = struct.unpack('!H', body[2 + wl:4 + wl])[0]
    attrs = body[4 + wl:4 + wl + al]
    nlri = body[4 + wl + al:]
    return withdrawn, attrs, nlri


def split_attrs(data):
    out = []
    while data:
        flag, aid = data[0], data[1]
        if flag & 0x10:
            ln = struct.unpack('!H', data[2:4])[0]; off = 4
        else:
            ln = data[2]; off = 3
        out.append((flag, aid, bytes(data[off:off + ln]), bytes(data[:off + ln])))
        data = data[off + ln:]
    return out
