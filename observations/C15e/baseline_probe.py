#!/usr/bin/env python3
"""baseline_probe.py

Runs the UNCHANGED decoders / encoders of the tree against hand written byte strings and
prints one line per case.  A line starting with VIOLATION is a case where the round trip /
equality / index / rendering property does not hold.  Exit status 1 if any reproduces.

    cd /tmp/obs_C15 && PYTHONPATH=/tmp/obs_C15/src /venv/bin/python _out/baseline_probe.py
"""

import os
import struct
import sys

sys.path.insert(0, os.path.dirname(os.path.abspath(__file__)))

from probe_lib import NEG, Attribute, pack_nlri, unpack_nlri  # noqa: E402
from exabgp.bgp.message.update.attribute.collection import AttributeCollection  # noqa: E402

FOUND = []


def report(case, violated, text):
    print('%s %-28s %s' % ('VIOLATION' if violated else 'ok       ', case, text))
    if violated:
        FOUND.append(case)


def dec(afi, safi, raw, addpath=False):
    nlri, left = unpack_nlri(afi, safi, raw, addpath)
    assert not bytes(left), 'the probe bytes are one NLRI'
    return nlri


def pair(case, fam_a, raw_a, fam_b, raw_b, addpath_a=False, addpath_b=False):
    """two NLRI: equal objects must share index and hash"""
    a = dec(fam_a[0], fam_a[1], raw_a, addpath_a)
    b = dec(fam_b[0], fam_b[1], raw_b, addpath_b)
    eq, idx, hsh = a == b, a.index() == b.index(), hash(a) == hash(b)
    bad = eq and not (idx and hsh)
    report(
        case,
        bad,
        '%s a=%s/%s:%s b=%s/%s:%s  a==b %s  index equal %s  hash equal %s'
        % (type(a).__name__, fam_a[0], fam_a[1], raw_a.hex(), fam_b[0], fam_b[1], raw_b.hex(), eq, idx, hsh),
    )


def collide(case, fam_a, raw_a, ap_a, fam_b, raw_b, ap_b):
    """two NLRI which differ in path-id / prefix / rd / family must not share an index"""
    a = dec(fam_a[0], fam_a[1], raw_a, ap_a)
    b = dec(fam_b[0], fam_b[1], raw_b, ap_b)
    same = a.index() == b.index()
    report(case, same, '[%s] vs [%s]  index equal %s  a==b %s  index=%s' % (a, b, same, a == b, a.index().hex()))


RD = bytes.fromhex('0000fde800000001')
RD2 = bytes.fromhex('0000fde800000002')
ESI_A = bytes(10)
ESI_B = bytes.fromhex('00112233445566778899')
ETAG = bytes(4)


def evpn(code, payload):
    return bytes([code, len(payload)]) + payload


def mup(code, payload):
    return struct.pack('!BHB', 1, code, len(payload)) + payload


def mvpn(code, payload):
    return bytes([code, len(payload)]) + payload


# ---------------------------------------------------------------- EVPN
L2VPN_EVPN = (25, 70)
pair('evpn-ead-esi', L2VPN_EVPN, evpn(1, RD + ESI_A + ETAG + b'\x00\x00\x01'), L2VPN_EVPN, evpn(1, RD + ESI_B + ETAG + b'\x00\x00\x01'))
pair('evpn-ead-label', L2VPN_EVPN, evpn(1, RD + ESI_A + ETAG + b'\x00\x00\x01'), L2VPN_EVPN, evpn(1, RD + ESI_A + ETAG + b'\x00\x01\x01'))
pair('evpn-es-esi', L2VPN_EVPN, evpn(4, RD + ESI_A + b'\x20' + bytes([1, 2, 3, 4])), L2VPN_EVPN, evpn(4, RD + ESI_B + b'\x20' + bytes([1, 2, 3, 4])))
MACADDR = bytes.fromhex('001122334455')
pair('evpn-mac-esi (control)', L2VPN_EVPN, evpn(2, RD + ESI_A + ETAG + b'\x30' + MACADDR + b'\x00' + b'\x00\x00\x01'), L2VPN_EVPN, evpn(2, RD + ESI_B + ETAG + b'\x30' + MACADDR + b'\x00' + b'\x00\x00\x01'))

# ---------------------------------------------------------------- MUP
MUP4, MUP6 = (1, 85), (2, 85)
pair('mup-dsd-afi', MUP4, mup(2, RD + bytes([1, 2, 3, 4])), MUP6, mup(2, RD + bytes([1, 2, 3, 4])))
pair('mup-t2st-endpoint-len', MUP4, mup(4, RD + bytes([40]) + bytes([1, 2, 3, 4]) + b'\x80'), MUP4, mup(4, RD + bytes([33]) + bytes([1, 2, 3, 4]) + b'\x80'))
pair('mup-t2st-teid-zero', MUP4, mup(4, RD + bytes([32]) + bytes([1, 2, 3, 4])), MUP4, mup(4, RD + bytes([40]) + bytes([1, 2, 3, 4]) + b'\x00'))

# ---------------------------------------------------------------- MVPN
MVPN4, MVPN6 = (1, 5), (2, 5)


def cmcast(asn):
    return RD + struct.pack('!I', asn) + b'\x20' + bytes([1, 1, 1, 1]) + b'\x20' + bytes([224, 0, 0, 1])


SOURCE_AD = RD + b'\x20' + bytes([1, 1, 1, 1]) + b'\x20' + bytes([224, 0, 0, 1])
pair('mvpn-sourcejoin-source-as', MVPN4, mvpn(7, cmcast(1)), MVPN4, mvpn(7, cmcast(2)))
pair('mvpn-sharedjoin-source-as', MVPN4, mvpn(6, cmcast(1)), MVPN4, mvpn(6, cmcast(2)))
pair('mvpn-sourcejoin-afi', MVPN4, mvpn(7, cmcast(1)), MVPN6, mvpn(7, cmcast(1)))
pair('mvpn-sharedjoin-afi', MVPN4, mvpn(6, cmcast(1)), MVPN6, mvpn(6, cmcast(1)))
pair('mvpn-sourcead-afi', MVPN4, mvpn(5, SOURCE_AD), MVPN6, mvpn(5, SOURCE_AD))

# ---------------------------------------------------------------- BGP-LS VPN
NODE = bytes.fromhex('0100000000000000040100001a020000040000fc13020100040000008b02030006192168251231')  # proto + id + local node


def lsvpn(rd):
    return struct.pack('!HH', 1, 8 + len(NODE)) + rd + NODE


raw = lsvpn(RD)
node = dec(16388, 72, raw)
out = pack_nlri(node)
report('bgpls-vpn-repack', out != raw, 'NODE in=%s out=%s (rd=%s is decoded, then left out)' % (raw.hex(), out.hex(), node.route_d))
report('bgpls-vpn-family', int(node.safi) != 72, 'decoded with safi 72, the object says %s %s' % (node.afi, node.safi))
try:
    dec(16388, 72, out)
    report('bgpls-vpn-redecode', False, 'its own output decodes')
except Exception as exc:  # noqa: BLE001
    report('bgpls-vpn-redecode', True, 'decoding its own output raises %r %s' % (exc, str(exc)[-70:]))
collide('bgpls-vpn-rd-index', (16388, 72), lsvpn(RD), False, (16388, 72), lsvpn(RD2), False)
collide('bgpls-vpn-vs-plain-index', (16388, 72), lsvpn(RD), False, (16388, 71), struct.pack('!HH', 1, len(NODE)) + NODE, False)

# ---------------------------------------------------------------- INET / Label / IPVPN index markers
IP8 = bytes(range(1, 9))
collide(
    'inet-index-disabled-marker',
    (2, 1), bytes([72]) + IP8 + b'\x00', False,
    (2, 1), b'disa' + bytes([98]) + b'led' + bytes([72]) + IP8 + b'\x00', True,
)
collide(
    'label-index-disabled-marker',
    (2, 4), bytes([72 + 24]) + b'\x00\x01\x01' + IP8 + b'\x00', False,
    (2, 4), b'disa' + bytes([98 + 24]) + b'\x00\x01\x01' + b'led' + bytes([72]) + IP8 + b'\x00', True,
)
IP12 = bytes(range(1, 13))
collide(
    'label-index-no-pi-marker',
    (2, 4), bytes(4) + bytes([104 + 24]) + b'\x00\x01\x01' + IP12 + b'\x00', True,
    (2, 4), b'no-p' + bytes([105 + 24]) + b'\x00\x01\x01' + bytes([104]) + IP12 + b'\x00', True,
)
# 'disabled' + [64+8] + rd1 + ip1(1)  ==  'disa' + 'b'(=64+34) + rd2 + ip2(5)   with rd2+ip2 = 'led' + [72] + rd1 + ip1
collide(
    'ipvpn-index-disabled-marker',
    (2, 128), bytes([24 + 64 + 8]) + b'\x00\x01\x01' + RD + b'\x40', False,
    (2, 128), b'disa' + bytes([24 + 98]) + b'\x00\x01\x01' + b'led' + bytes([72]) + RD + b'\x40', True,
)


# ---------------------------------------------------------------- Tunnel encapsulation (attribute 23)
def tunnel_attr(value):
    return Attribute.unpack(23, 0xC0, value, NEG)


def tun(sub):
    return struct.pack('!HH', 15, len(sub)) + sub


def repack(case, value, note):
    raw = bytes([0xC0, 23, len(value)]) + value
    out = bytes(tunnel_attr(value).pack_attribute(NEG))
    report(case, out != raw, '%s in=%s out=%s' % (note, raw.hex(), out.hex()))


def seg_a(label, s):
    return bytes([1, 6, 0, 0]) + struct.pack('!I', (label << 12) | (0x100 if s else 0))


def seglist(body):
    return bytes([128]) + struct.pack('!H', 1 + len(body)) + b'\x00' + body


WEIGHT = bytes([9, 6, 0, 0]) + struct.pack('!I', 1)
repack('tunnel-bsid-rfc9830', tun(bytes([13, 6, 0, 0]) + struct.pack('!I', 1000 << 12)), 'binding SID, flags 0, TC/S/TTL 0 as RFC 9830 2.4.2 requires:')
repack('tunnel-bsid-exabgp (control)', tun(bytes([13, 6, 0x10, 0]) + struct.pack('!I', (1000 << 12) | 0x100)), 'binding SID as ExaBGP writes it:')
repack('tunnel-seglist-s-bit', tun(seglist(WEIGHT + seg_a(100, False) + seg_a(200, False))), 'type A segments with S=0:')
repack('tunnel-seglist-no-weight', tun(seglist(seg_a(100, False) + seg_a(200, True))), 'segment list without the optional weight:')
repack('tunnel-seglist (control)', tun(seglist(WEIGHT + seg_a(100, False) + seg_a(200, True))), 'segment list as ExaBGP writes it:')

UNKNOWN = tun(bytes([77, 2, 1, 2]))
a, b = tunnel_attr(UNKNOWN), tunnel_attr(UNKNOWN)
report('tunnel-unknown-subtlv-eq', not (a == b), 'same bytes %s decoded twice: a==b %s  str %s' % (UNKNOWN.hex(), a == b, str(a)))
report('tunnel-unknown-subtlv-str', str(a) != str(b), 'text of the two decodes equal: %s' % (str(a) == str(b)))
FULL = bytes.fromhex('400101004002004003040a000001') + bytes([0xC0, 23, len(UNKNOWN)]) + UNKNOWN
c1, c2 = AttributeCollection().parse(FULL, NEG), AttributeCollection().parse(FULL, NEG)
report(
    'tunnel-unknown-subtlv-collection',
    not (c1 == c2 and c1.index() == c2.index() and hash(c1) == hash(c2)),
    'same attribute block decoded twice: == %s  index equal %s  hash equal %s' % (c1 == c2, c1.index() == c2.index(), hash(c1) == hash(c2)),
)
x, y = tunnel_attr(struct.pack('!HH', 8, 3) + b'abc'), tunnel_attr(struct.pack('!HH', 8, 3) + b'abd')
report('tunnel-generic-value-eq (remark)', False, 'tunnel type 8 with value abc / abd compare equal: %s (packs %s / %s)' % (x == y, bytes(x.pack_attribute(NEG)).hex(), bytes(y.pack_attribute(NEG)).hex()))

# ---------------------------------------------------------------- prefix-SID rendering and import state
from exabgp.bgp.message.update.attribute.sr.prefixsid import PrefixSid  # noqa: E402

SRV6 = bytes.fromhex('0500220001001e0020010db800010001000000000000000000004800010006401810000000')
before_codes = sorted(PrefixSid.registered_srids)
p1 = Attribute.unpack(40, 0xC0, SRV6, NEG)
j1, s1 = p1.json(), str(p1)
import exabgp.configuration.static.mpls  # noqa: E402,F401  (what any configured exabgp has imported)

p2 = Attribute.unpack(40, 0xC0, SRV6, NEG)
report(
    'prefixsid-srv6-import-state',
    j1 != p2.json() or s1 != str(p2),
    'TLV 5 decoded before / after importing exabgp.configuration.static.mpls (registered %s -> %s): json equal %s  text equal %s'
    % (before_codes, sorted(PrefixSid.registered_srids), j1 == p2.json(), s1 == str(p2)),
)

# ---------------------------------------------------------------- decoders which normalise
rtc = bytes([96]) + struct.pack('!L', 65000) + bytes.fromhex('4002fde800000001')
out = pack_nlri(dec(1, 132, rtc))
report('rtc-type-bits', out != rtc, 'RTC with a non-transitive route target in=%s out=%s' % (rtc.hex(), out.hex()))
try:
    dec(1, 132, bytes([64]) + struct.pack('!L', 65000) + bytes.fromhex('0002fde8'))
    report('rtc-prefix-64', False, 'decodes')
except Exception as exc:  # noqa: BLE001
    report('rtc-prefix-64', True, 'RFC 4684 prefix of 64 bits (9 bytes) is refused: %s' % str(exc)[-60:])
aigp = bytes.fromhex('01000b0000000000000064' '02000401')
out = bytes(Attribute.unpack(26, 0x80, aigp, NEG).pack_attribute(NEG))
report('aigp-unknown-tlv', out != bytes([0x80, 26, len(aigp)]) + aigp, 'AIGP followed by a TLV of another type in=%s out=%s' % ((bytes([0x80, 26, len(aigp)]) + aigp).hex(), out.hex()))

print()
print('%d violation(s): %s' % (len(FOUND), ', '.join(FOUND)))
sys.exit(1 if FOUND else 0)
