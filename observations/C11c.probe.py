"""C11 baseline probe: histories for which the UNCHANGED tree does not resynchronise the peer.

Real code all the way (configuration parser, Peer, Protocol, OutgoingRIB, TCP loopback connection handed
to Peer.handle_connection); the remote speaker is scripted and decodes what it receives by hand.
See harness.py (same directory) and baseline_observations.md.

Run: cd <tree> && PYTHONPATH=<tree>/src /venv/bin/python _out/baseline_probe.py
Exit status 1 while at least one of the problems is still there, 0 when none is.
"""

import os
import sys

sys.path.insert(0, os.path.dirname(os.path.abspath(__file__)))

from harness import World, conf, fmt_table, run  # noqa: E402

R1 = '10.0.1.0/24 next-hop 1.1.1.1 med 1'
R2 = '10.0.2.0/24 next-hop 1.1.1.1 med 2'
R6 = '2001:db8:1::/48 next-hop 2001::1 med 3'


def report(name: str, bad: bool, expected: str, observed: str) -> bool:
    print(f'[{"VIOLATION" if bad else "ok"}] {name}')
    print(f'        expected : {expected}')
    print(f'        observed : {observed}')
    return bad


async def obs1_adj_rib_out_false_session_loss() -> bool:
    """adj-rib-out false: the CONFIGURED routes are not advertised again after a session loss."""
    w = World(conf([R1, R2], options='adj-rib-out false;'))
    s1 = await w.connect()
    await w.wait_eor(s1)
    await w.remote_close()
    s2 = await w.connect()
    await w.wait_eor(s2)
    await w.settle(s2)
    await w.stop()
    return report(
        'O1 adj-rib-out false, session lost after the table was sent',
        s2.table != s1.table,
        f'session 2 table = session 1 table = {fmt_table(s1.table)}',
        f'session 2 table = {fmt_table(s2.table)} EOR={s2.eors()}',
    )


async def obs1b_adj_rib_out_false_first_attempt_fails() -> bool:
    """adj-rib-out false: the first establishment fails (OPEN answered by a close): the configured
    routes are never advertised at all."""
    w = World(conf([R1], options='adj-rib-out false;'))
    s1 = await w.connect(drop_in_establishment='after-open')
    await w.wait_closed(s1)
    s2 = await w.connect()
    await w.wait_eor(s2)
    await w.settle(s2)
    await w.stop()
    return report(
        'O1b adj-rib-out false, connection lost during the very first establishment',
        s2.table != {'10.0.1.0/24': 1},
        'first established session carries {10.0.1.0/24(med=1)}',
        f'{fmt_table(s2.table)} EOR={s2.eors()}',
    )


async def obs2_queued_manual_eor_mid_table() -> bool:
    """An `announce eor` given while the session is down stays queued (reset_rib() empties .messages and
    .refresh, not .eor) and is sent on the next session after the first 25 UPDATEs, in the middle of the table."""
    from exabgp.protocol.family import AFI, SAFI, Family

    routes = [f'10.1.{i}.0/24 next-hop 1.1.1.1 med {i}' for i in range(60)]
    w = World(conf(routes))
    s1 = await w.connect()
    await w.wait_eor(s1)
    await w.remote_close()
    # what the API command `announce eor ipv4 unicast` does
    w.configuration.inject_eor([w.name], Family(AFI.ipv4, SAFI.unicast))
    s2 = await w.connect()
    await w.wait_eor(s2)
    await w.settle(s2)
    await w.stop()
    at_first_eor = len(s2.table_at_eor.get('ipv4', {}))
    return report(
        'O2 `announce eor` issued while down, 60 routes with 60 attribute sets',
        at_first_eor != 60,
        'the first IPv4 End-of-RIB of the new session arrives when the 60 routes have been received',
        f'first IPv4 EOR after {at_first_eor} routes; EORs at positions '
        f'{[i for i, e in enumerate(s2.events) if e[0] == "EOR"]} of {len(s2.events)} events',
    )


async def obs3_premature_ipv4_eor_from_mp_withdraw() -> bool:
    """A withdraw of a non IPv4-unicast route issued while down is still pending when the session comes up.
    The first batch is generated with include_withdraw=False: UpdateCollection.messages() drops the
    MP_UNREACH_NLRI but still yields the (now empty) UPDATE of that family = an IPv4 unicast End-of-RIB,
    as the FIRST message of the session, before any route."""
    w = World(conf([R1, R2, R6]))
    s1 = await w.connect()
    await w.wait_eor(s1)
    await w.remote_close()
    w.withdraw('route ' + R6)
    s2 = await w.connect()
    await w.wait_eor(s2)
    await w.settle(s2)
    await w.stop()
    at_first = s2.table_at_eor.get('ipv4', {})
    return report(
        'O3 ipv6 route withdrawn while down, two ipv4 routes still to be advertised',
        at_first != {'10.0.1.0/24': 1, '10.0.2.0/24': 2} or s2.eors().count('ipv4') != 1,
        'A 10.0.1.0/24, A 10.0.2.0/24, then exactly one EOR ipv4 and one EOR ipv6',
        f'{s2.events}',
    )


async def obs4_stale_version_wins() -> bool:
    """A route announced twice with different attributes before the queue is sent is queued twice
    (_update_rib never removes the older entry from _new_attr_af_nlri); the UPDATEs leave in the order the
    attribute sets were first seen, so the OLDER version can be the last one the peer receives."""
    w = World(conf([R1]))
    s1 = await w.connect()
    await w.wait_eor(s1)
    await w.remote_close()
    w.announce('route 10.0.7.0/24 next-hop 1.1.1.1 med 20')
    w.announce('route 10.0.5.0/24 next-hop 1.1.1.1 med 10')
    w.announce('route 10.0.5.0/24 next-hop 1.1.1.1 med 20')  # the intended version
    s2 = await w.connect()
    await w.wait_eor(s2)
    await w.settle(s2)
    await w.stop()
    intended = {'10.0.1.0/24': 1, '10.0.7.0/24': 20, '10.0.5.0/24': 20}
    return report(
        'O4 while down: announce 10.0.7.0/24 med 20, 10.0.5.0/24 med 10, 10.0.5.0/24 med 20',
        s2.table != intended,
        fmt_table(intended),
        f'{fmt_table(s2.table)} from {s2.events}',
    )


async def obs5_withdrawn_route_comes_back() -> bool:
    """Same root cause, worse effect: announce R (med 10), announce R (med 20), withdraw R, all while down.
    del_from_rib() removes the med 20 entry only: the med 10 entry is still queued and R is advertised on the
    new session although it was withdrawn (and it is not in the cache: the session after that one does not have it)."""
    w = World(conf([R1]))
    s1 = await w.connect()
    await w.wait_eor(s1)
    await w.remote_close()
    w.announce('route 10.0.5.0/24 next-hop 1.1.1.1 med 10')
    w.announce('route 10.0.5.0/24 next-hop 1.1.1.1 med 20')
    w.withdraw('route 10.0.5.0/24 next-hop 1.1.1.1 med 20')
    s2 = await w.connect()
    await w.wait_eor(s2)
    await w.settle(s2)
    await w.stop()
    return report(
        'O5 while down: announce 10.0.5.0/24 med 10, announce it med 20, withdraw it',
        s2.table != {'10.0.1.0/24': 1},
        '{10.0.1.0/24(med=1)}',
        fmt_table(s2.table),
    )


async def obs6_adj_rib_out_enabled_by_reload_is_not_honoured() -> bool:
    """adj-rib-out false -> reload with adj-rib-out true (the neighbor changed: the session is re-established).
    RIB.enable() reuses the RIB cached under the neighbor name and never updates outgoing.cache: nothing is kept,
    API routes are not advertised again after a session loss although adj-rib-out is now true."""
    w = World(conf([R1], options='adj-rib-out false;'))
    s1 = await w.connect()
    await w.wait_eor(s1)
    # what Reactor does on SIGUSR1 (reactor/loop.py): parse again, then reestablish / reconfigure
    w.configuration._configurations[0] = conf([R1], options='adj-rib-out true;')
    assert w.configuration.reload(), w.configuration.error
    ((_, neighbor),) = w.configuration.neighbors.items()
    assert w.peer.neighbor != neighbor
    w.peer.reestablish(neighbor)
    w.neighbor = neighbor
    await w.wait_closed(s1)
    s2 = await w.connect()
    await w.wait_eor(s2)
    w.announce('route 10.0.9.0/24 next-hop 1.1.1.1 med 9')
    await w.settle(s2)
    flag = w.peer.neighbor.rib.outgoing.cache
    await w.remote_close()
    s3 = await w.connect()
    await w.wait_eor(s3)
    await w.settle(s3)
    await w.stop()
    return report(
        'O6 reload turns adj-rib-out on, API route announced, session lost',
        '10.0.9.0/24' not in s3.table,
        'neighbor.adj_rib_out is True so 10.0.9.0/24 (announced on session 2) is advertised again on session 3',
        f'adj_rib_out={w.peer.neighbor.adj_rib_out} outgoing.cache={flag} '
        f'session 2 {fmt_table(s2.table)} session 3 {fmt_table(s3.table)}',
    )


async def obs7_no_multiprotocol_capability() -> bool:
    """The peer's OPEN carries no MULTIPROTOCOL capability (IPv4 unicast is then implied, RFC 4760 section 8 /
    RFC 4271): the session is established, negotiated.families is empty, every route is skipped and a KEEPALIVE
    is sent in place of the End-of-RIB."""
    w = World(conf([R1]), families=())
    s1 = await w.connect()
    got = await w.wait_eor(s1, families=('ipv4',), timeout=2.0)
    await w.settle(s1)
    await w.stop()
    return report(
        'O7 peer OPEN without any MULTIPROTOCOL capability',
        s1.established and (not got or s1.table != {'10.0.1.0/24': 1}),
        'session established: 10.0.1.0/24 then the IPv4 unicast EOR (or the OPEN is refused)',
        f'established={s1.established} table={fmt_table(s1.table)} EOR={s1.eors()} '
        f'message types received={[t for t, _ in s1.messages]}',
    )


async def main() -> int:
    found = []
    for probe in (
        obs1_adj_rib_out_false_session_loss,
        obs1b_adj_rib_out_false_first_attempt_fails,
        obs2_queued_manual_eor_mid_table,
        obs3_premature_ipv4_eor_from_mp_withdraw,
        obs4_stale_version_wins,
        obs5_withdrawn_route_comes_back,
        obs6_adj_rib_out_enabled_by_reload_is_not_honoured,
        obs7_no_multiprotocol_capability,
    ):
        if await probe():
            found.append(probe.__name__)
    print()
    if found:
        print(f'{len(found)} violation(s) reproduced: {", ".join(found)}')
        return 1
    print('no violation reproduced')
    return 0


if __name__ == '__main__':
    sys.exit(run(main()))
