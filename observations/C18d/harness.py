"""Shared helper for the C18 demos / baseline probe.

parse(kind, text)   -> ('ok', routes) | ('refused', message) | ('raised', exception)
encode(routes, ...) -> list of (session-name, 'ok', [messages]) | (session-name, 'raised', exception)

Uses only the real code: API.api_route / api_flow / api_vpls / api_attributes / api_announce_v4/v6 for the
text, UpdateCollection.messages for the wire.
"""

from __future__ import annotations

import copy
import itertools
import os
import sys

os.environ.setdefault('exabgp_log_enable', 'false')

from exabgp.environment import getenv  # noqa: E402
from exabgp.logger import log  # noqa: E402

log.silence()

from exabgp.bgp.message.update.collection import UpdateCollection, RoutedNLRI  # noqa: E402
from exabgp.bgp.message.update import Update  # noqa: E402
from exabgp.configuration.check import _negotiated  # noqa: E402
from exabgp.configuration.setup import create_minimal_configuration  # noqa: E402
from exabgp.reactor.api import API  # noqa: E402
from exabgp.util.enumeration import TriState  # noqa: E402


class _Reactor:
    pass


_API = None


def api() -> API:
    global _API
    if _API is None:
        _API = API(_Reactor())  # type: ignore[arg-type]
    return _API


def parse(kind: str, text: str, action: str = 'announce', fresh: bool = False):
    """kind: route | flow | vpls | attributes | v4 | v6"""
    global _API
    if fresh:
        _API = None
    a = api()
    a.configuration.error.clear() if hasattr(a.configuration.error, 'clear') else None
    try:
        if kind == 'route':
            routes = a.api_route(text, action)
        elif kind == 'flow':
            routes = a.api_flow(text, action)
        elif kind == 'vpls':
            routes = a.api_vpls(text, action)
        elif kind == 'attributes':
            routes = a.api_attributes(text, [], action)
        elif kind == 'v4':
            routes = a.api_announce_v4(text, action)
        elif kind == 'v6':
            routes = a.api_announce_v6(text, action)
        else:
            raise RuntimeError(kind)
    except BaseException as exc:  # noqa: BLE001
        if isinstance(exc, (KeyboardInterrupt, SystemExit)):
            raise
        return 'raised', exc
    if not routes:
        return 'refused', str(a.configuration.error)
    return 'ok', routes


SESSIONS = {}


def _session(name, asn4=True, extmsg=False, addpath=False, ebgp=False, local_as=65533, peer_as=65533):
    conf = create_minimal_configuration(
        families='all', add_path=addpath, local_as=local_as, peer_as=(peer_as if not ebgp else 65000)
    )
    neighbor = list(conf.neighbors.values())[0]
    neighbor.capability.asn4 = TriState.TRUE if asn4 else TriState.FALSE
    neighbor.capability.extended_message = TriState.TRUE if extmsg else TriState.FALSE
    if addpath:
        neighbor.capability.add_path = 3
    _, out = _negotiated(neighbor)
    return neighbor, out


def sessions():
    if not SESSIONS:
        for asn4, extmsg, addpath, ebgp in itertools.product((True, False), repeat=4):
            name = '%s/%s/%s/%s' % (
                'asn4' if asn4 else 'asn2',
                'ext' if extmsg else '4096',
                'addpath' if addpath else 'nopath',
                'ebgp' if ebgp else 'ibgp',
            )
            SESSIONS[name] = _session(name, asn4, extmsg, addpath, ebgp)
    return SESSIONS


def encode(routes, only=None, action='announce'):
    out = []
    for name, (neighbor, negotiated) in sessions().items():
        if only and name not in only:
            continue
        try:
            msgs = []
            for route in routes:
                resolved = neighbor.resolve_self(route)
                if action == 'announce':
                    uc = UpdateCollection([RoutedNLRI(resolved.nlri, resolved.nexthop)], [], resolved.attributes)
                else:
                    uc = UpdateCollection([], [resolved.nlri], resolved.attributes)
                for m in uc.messages(negotiated):
                    msgs.append(bytes(m))
            out.append((name, 'ok', msgs))
        except BaseException as exc:  # noqa: BLE001
            if isinstance(exc, (KeyboardInterrupt, SystemExit)):
                raise
            out.append((name, 'raised', exc))
    return out


def decode(msg: bytes, session: str):
    """Decode one wire message produced by encode() with the same negotiated state."""
    neighbor, negotiated = sessions()[session]
    return UpdateCollection.unpack_message(msg[19:], negotiated)


def check(kind, text, action='announce'):
    """Returns a list of problems (strings) for this text: untyped exception at parse, or accepted and not encodable,
    or accepted and encodes to nothing / to an oversized message."""
    problems = []
    state, value = parse(kind, text, action)
    if state == 'raised':
        problems.append('parse raised %s: %s' % (type(value).__name__, value))
        return state, problems
    if state == 'refused':
        return state, problems
    for name, st, val in encode(value, action=action):
        if st == 'raised':
            problems.append('encode[%s] raised %s: %s' % (name, type(val).__name__, val))
        else:
            limit = 65535 if '/ext/' in name else 4096
            if not val:
                problems.append('encode[%s] produced no message' % name)
            for m in val:
                if len(m) > limit:
                    problems.append('encode[%s] message of %d bytes' % (name, len(m)))
    return state, problems


# ---------------------------------------------------------------- configuration files

NEIGHBOR = """
neighbor 127.0.0.1 {
    router-id 10.0.0.1;
    local-address 127.0.0.1;
    local-as 65500;
    peer-as %(peer_as)s;
    %(capability)s
    family { %(family)s }
    %(body)s
}
"""


def load(body: str, family: str = 'ipv4 unicast; ipv6 unicast;', peer_as: int = 65500, capability: str = ''):
    """Parse a configuration made of one neighbor holding `body`.
    Returns ('ok', configuration) | ('refused', message) | ('raised', exception)."""
    from exabgp.configuration.configuration import Configuration
    from exabgp.rib import RIB

    RIB._cache.clear()  # one process, many configurations: do not let the RIB of the previous one be reused
    text = NEIGHBOR % {'body': body, 'family': family, 'peer_as': peer_as, 'capability': capability}
    try:
        configuration = Configuration([text], text=True)
        ok = configuration.reload()
    except BaseException as exc:  # noqa: BLE001
        if isinstance(exc, (KeyboardInterrupt, SystemExit)):
            raise
        return 'raised', exc
    if not ok:
        return 'refused', str(configuration.error)
    return 'ok', configuration


def generate(configuration):
    """Encode every configured route of every neighbor the way the peer would: through the outgoing RIB.
    Returns list of (neighbor, 'ok', [messages]) | (neighbor, 'raised', exception)."""
    out = []
    for name, neighbor in configuration.neighbors.items():
        _, negotiated = _negotiated(neighbor)
        try:
            msgs = []
            for update in neighbor.rib.outgoing.updates(False):
                for m in update.messages(negotiated):
                    msgs.append(bytes(m))
            out.append((name, 'ok', msgs, negotiated))
        except BaseException as exc:  # noqa: BLE001
            if isinstance(exc, (KeyboardInterrupt, SystemExit)):
                raise
            out.append((name, 'raised', exc, negotiated))
    return out
