"""C18 seed 1: a flow rule must carry the actions written in ITS text, whatever was parsed before it.

History needed: first a rule whose `then` names `discard` FIRST and another extended-community action after it
(mark / action / extended-community / redirect ...), then a rule with `discard` alone.
Observed through the real API entry point (API.api_flow) and the real encoder (UpdateCollection.messages).
"""

import os
import sys

sys.path.insert(0, os.path.join(os.path.dirname(os.path.abspath(__file__)), '..'))
from harness import parse, encode, decode  # noqa: E402

SESSION = 'asn4/4096/nopath/ibgp'


def communities(text: str) -> tuple[str, list[str]]:
    state, routes = parse('flow', text)
    assert state == 'ok', (state, routes)
    route = routes[0]
    described = route.extensive()
    wire = []
    for _name, st, msgs in encode(routes, only=[SESSION]):
        assert st == 'ok', msgs
        for msg in msgs:
            update = decode(msg, SESSION)
            wire.append(str(update.attributes))
    return described, wire


first = 'flow route { match { destination 10.0.1.0/24; } then { discard; mark 5; extended-community [ target:65000:1 ]; } }'
second = 'flow route { match { destination 10.0.2.0/24; } then { discard; } }'

# what the second rule says when it is the first thing this process parses
alone_text, alone_wire = communities(second)
# the history
communities(first)
after_text, after_wire = communities(second)

print('rule        :', second)
print('expected    :', alone_text)
print('             ', alone_wire)
print('after rule 1:', after_text)
print('             ', after_wire)

ok = True
for what in (after_text, ' '.join(after_wire)):
    if 'mark' in what or 'target' in what:
        ok = False
if alone_text != after_text or alone_wire != after_wire:
    ok = False

if not ok:
    print('FAIL: the second rule is announced with actions it never named (taken from the rule parsed before it)')
    sys.exit(1)
print('OK: the rule carries its own actions only')
sys.exit(0)
