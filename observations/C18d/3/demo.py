"""C18 seed 3: a 4-byte AS number in an as-path is accepted, so it has to reach the peer on EVERY kind of session.

On a session without the 4-byte AS capability (RFC 6793 4.2.2) the AS_PATH carries AS_TRANS (23456) in its place and
the real path travels in AS4_PATH.  Needs: a 2-byte session + an as-path of several segments whose LAST segment has
no AS number above 65535 while an earlier one has (for example a sequence followed by a set of private 2-byte ASes).
"""

import os
import sys

sys.path.insert(0, os.path.join(os.path.dirname(os.path.abspath(__file__)), '..'))
from harness import parse, encode, decode  # noqa: E402

ASN4 = 'asn4/4096/nopath/ebgp'
ASN2 = 'asn2/4096/nopath/ebgp'

cases = [
    # single segment: the common case
    'route 10.0.0.0/24 next-hop 192.0.2.1 as-path [ 65000 4200000001 ]',
    # large AS in the last segment
    'route 10.0.1.0/24 next-hop 192.0.2.1 as-path [ 65000 ] ( 64512 4200000001 )',
    # large AS in a segment which is not the last one
    'route 10.0.2.0/24 next-hop 192.0.2.1 as-path [ 65000 4200000001 ] ( 64512 64513 )',
]

failures = 0
for text in cases:
    state, routes = parse('route', text)
    assert state == 'ok', (state, routes)
    written = str(routes[0].attributes[2])
    seen = {}
    for name, st, msgs in encode(routes, only=[ASN4, ASN2]):
        if st != 'ok':
            seen[name] = 'encode raised %r' % (msgs,)
            continue
        assert len(msgs) == 1
        update = decode(msgs[0], name)
        has_as4_path = b'\xc0\x11' in msgs[0]
        seen[name] = '%s%s' % (str(update.attributes[2]), '  (+AS4_PATH)' if has_as4_path else '')
    print(text)
    print('   written            :', written)
    for name in (ASN4, ASN2):
        print('   %-19s:' % name, seen[name])
    got2 = seen[ASN2].replace('  (+AS4_PATH)', '')
    got4 = seen[ASN4].replace('  (+AS4_PATH)', '')
    if got4 != written:
        print('   FAIL: the peer of the 4-byte session does not receive the path which was written')
        failures += 1
    if got2 != written:
        print('   FAIL: the peer of the 2-byte session does not receive the path which was written')
        failures += 1

if failures:
    sys.exit(1)
print('OK: the same path reaches 2-byte and 4-byte peers')
sys.exit(0)
