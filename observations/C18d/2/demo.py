"""C18 seed 2: `extended-community target:<asn>:<nn>` / `origin:<asn>:<nn>` at the last 2-octet AS number.

RFC 4360 3.1: a 2-octet AS (0..65535) goes with a 4-octet local administrator, type 0x00.
RFC 5668   : a 4-octet AS (above 65535) goes with a 2-octet local administrator, type 0x02.
So `target:65535:100000` is a value the RFCs allow (must be accepted) and `target:65535:1` must be sent as the
two-octet AS specific route target 0x0002 FFFF 00000001 -- it is the value the peers import on.
"""

import os
import sys

sys.path.insert(0, os.path.join(os.path.dirname(os.path.abspath(__file__)), '..'))
from harness import parse, encode  # noqa: E402

BASE = 'route 10.0.0.0/24 next-hop 192.0.2.1 extended-community '
failures = 0


def wire_community(text: str) -> tuple[str, bytes | str]:
    state, value = parse('route', BASE + text)
    if state != 'ok':
        return state, str(value).strip().split('\n')[0]
    found = b''
    for name, st, msgs in encode(value):
        if st != 'ok':
            return 'encode-raised', '%s: %r' % (name, msgs)
        for msg in msgs:
            at = msg.find(b'\xc0\x10\x08')  # optional transitive, EXTENDED_COMMUNITY, 8 bytes
            assert at > 0, msg.hex()
            this = msg[at + 3 : at + 11]
            assert not found or found == this
            found = this
    return 'ok', found


cases = [
    # text, expected state, expected bytes
    ('target:65534:100000', 'ok', bytes.fromhex('0002fffe000186a0')),
    ('target:65535:1', 'ok', bytes.fromhex('0002ffff00000001')),
    ('target:65535:100000', 'ok', bytes.fromhex('0002ffff000186a0')),
    ('origin:65535:4294967295', 'ok', bytes.fromhex('0003ffffffffffff')),
    ('target:65536:1', 'ok', bytes.fromhex('0202000100000001')),
    ('target:65536:65536', 'refused', None),
]

for text, want_state, want_bytes in cases:
    state, got = wire_community(text)
    good = state == want_state and (want_bytes is None or got == want_bytes)
    shown = got.hex() if isinstance(got, bytes) else got
    print('%-26s expected %-8s %-18s observed %-8s %s  %s' % (
        text, want_state, want_bytes.hex() if want_bytes else '-', state, shown, 'ok' if good else 'FAIL'))
    if not good:
        failures += 1

if failures:
    print('FAIL: %d value(s) at the 2-octet AS boundary are refused or sent as another community' % failures)
    sys.exit(1)
print('OK')
sys.exit(0)
