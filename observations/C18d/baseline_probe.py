"""C18 baseline probe: inputs for which the UNCHANGED tree already violates
"route text is accepted if and only if it can be sent".

Run:  cd <tree> && PYTHONPATH=<tree>/src /venv/bin/python _out/baseline_probe.py
Exit 1 while at least one of the problems below exists, 0 when none does.
Only the real code is exercised: API.api_* / Configuration.reload for the text, UpdateCollection.messages (or the
outgoing RIB) for the wire, UpdateCollection.unpack_message (ExaBGP's own decoder) to read the wire back.
See baseline_observations.md for the write-up of every numbered item.
"""

from __future__ import annotations

import asyncio
import os
import sys

sys.path.insert(0, os.path.dirname(os.path.abspath(__file__)))

from harness import (  # noqa: E402
    API,
    RoutedNLRI,
    UpdateCollection,
    _negotiated,
    create_minimal_configuration,
    decode,
    encode,
    generate,
    load,
    parse,
)

IBGP = 'asn4/4096/nopath/ibgp'
PROBLEMS: list[str] = []


def report(ident: str, title: str, text: str, observed: str, expected: str, bad: bool) -> None:
    print('[%s] %s' % (ident, title))
    print('      input   : %s' % text[:200])
    print('      observed: %s' % observed[:400])
    print('      expected: %s' % expected)
    print('      -> %s' % ('PROBLEM' if bad else 'fine'))
    if bad:
        PROBLEMS.append(ident)


def plain_session(families: str):
    """A session WITHOUT the extended next hop capability (the 16 sessions of harness.sessions() all have it)."""
    conf = create_minimal_configuration(families=families)
    neighbor = list(conf.neighbors.values())[0]
    nin, nout = _negotiated(neighbor)
    return neighbor, nin, nout


def own_decoder(msg: bytes, negotiated) -> str:
    try:
        update = UpdateCollection.unpack_message(msg[19:], negotiated)
    except BaseException as exc:  # noqa: BLE001
        return 'REFUSED by our own decoder: %s' % str(exc)[:160]
    return 'announces %s withdraws %s' % (
        ['%s next-hop %s' % (r.nlri, r.nexthop) for r in update.announces],
        [str(n) for n in update.withdraws],
    )


# ------------------------------------------------------------------------------------------------------------------
# 1. a next hop of the other address family


def check_nexthop_family() -> None:
    neighbor, nin, nout = plain_session('ipv4 unicast ipv6 unicast ipv4 mpls-vpn ipv6 mpls-vpn ipv4 flow ipv6 flow')
    for ident, kind, text in [
        ('1a', 'route', 'route 2001:db8::/32 next-hop 192.0.2.1'),
        ('1b', 'route', 'route 10.0.0.0/24 next-hop 2001:db8::1'),
        ('1c', 'route', 'route 2001:db8::/32 next-hop 192.0.2.1 label 3 rd 1:1'),
        ('1d', 'flow', 'flow route { match { destination 10.0.0.0/24; } then { redirect 2001:db8::1; } }'),
        ('1e', 'flow', 'flow route { match { destination 2001:db8::/32; } then { redirect 192.0.2.1; } }'),
    ]:
        state, routes = parse(kind, text)
        if state != 'ok':
            report(ident, 'next hop of the other family', text, '%s: %s' % (state, routes), 'refused', False)
            continue
        seen = []
        bad = False
        for route in routes:
            route = neighbor.resolve_self(route)
            try:
                msgs = list(UpdateCollection([RoutedNLRI(route.nlri, route.nexthop)], [], route.attributes).messages(nout))
            except BaseException as exc:  # noqa: BLE001
                seen.append('encode raised %s: %s' % (type(exc).__name__, exc))
                bad = True
                continue
            for msg in msgs:
                back = own_decoder(bytes(msg), nin)
                seen.append(back)
                if back.startswith('REFUSED'):
                    bad = True
        report(
            ident,
            'a next hop of the other address family is accepted (session without extended next hop)',
            text,
            'accepted; ' + ' / '.join(seen),
            'refused at parse time, or an UPDATE which a BGP speaker (ExaBGP included) can decode',
            bad,
        )


# ------------------------------------------------------------------------------------------------------------------
# 2. next-hop written twice


def check_nexthop_twice() -> None:
    text = 'route 10.0.0.0/24 next-hop 192.0.2.1 next-hop 192.0.2.2'
    state, routes = parse('route', text)
    observed = state
    bad = False
    if state == 'ok':
        said = str(routes[0].nexthop)
        sent = []
        for name, st, msgs in encode(routes, only=[IBGP]):
            for msg in msgs:
                sent += [str(r.nexthop) for r in decode(msg, name).announces]
        observed = 'accepted; the route says next-hop %s (text, JSON, MP_REACH), the UPDATE carries NEXT_HOP %s' % (said, sent)
        bad = [said] != sent
    report('2a', 'next-hop given twice: two different next hops in one route', text, observed, 'refused, or one next hop everywhere', bad)

    body = 'static { route 10.0.0.0/24 next-hop self next-hop 192.0.2.1; }'
    state, conf = load(body)
    observed = state if state != 'ok' else 'configuration accepted'
    bad = False
    if state == 'ok':
        for name, st, val, _neg in generate(conf):
            if st == 'raised':
                observed += '; generating the UPDATEs raised %s: %s' % (type(val).__name__, val)
                bad = True
            else:
                observed += '; %d message(s)' % len(val)
    report('2b', '"next-hop self next-hop <ip>": accepted, can not be encoded for any session', body, observed, 'refused by the parser, or encodable', bad)


# ------------------------------------------------------------------------------------------------------------------
# 3/4. untyped exceptions out of the API entry points


def check_untyped() -> None:
    for ident, kind, text in [
        ('3a', 'attributes', 'attributes med 5 split /24'),
        ('3b', 'attributes', 'attributes next-hop 192.0.2.1 split /25 nlri'),
        ('4a', 'route', 'route 1.2.3.256/32 { next-hop 192.0.2.1; }'),
        ('4b', 'route', 'route 10.0.0.1/24 { next-hop 192.0.2.1; }'),
    ]:
        state, value = parse(kind, text)
        observed = state
        if state == 'raised':
            observed = 'API.api_%s raised %s: %s' % (kind, type(value).__name__, str(value).split('\n')[0])
        elif state == 'refused':
            observed = 'refused: %s' % str(value).strip().split('\n')[0]
        report(ident, 'an exception leaves the API entry point instead of a refusal', text, observed, 'refused ([] returned, message in configuration.error)', state == 'raised')


# ------------------------------------------------------------------------------------------------------------------
# 5. prefix length which is not a number


def check_prefix_garbage() -> None:
    for ident, text in [('5a', 'route 10.0.0.0/24x next-hop 192.0.2.1'), ('5b', 'route 10.0.0.0/ next-hop 192.0.2.1'), ('5c', 'route 2001:db8::/3z next-hop 2001:db8::1')]:
        state, routes = parse('route', text)
        observed = state if state != 'ok' else 'accepted as ' + ', '.join(str(r.nlri) for r in routes)
        report(ident, 'a prefix length which is not a number is read as a host route', text, observed, 'refused', state == 'ok')


# ------------------------------------------------------------------------------------------------------------------
# 6/7. values silently dropped


def check_dropped_values() -> None:
    for ident, text, needle in [
        ('6a', 'route 10.0.0.0/24 { next-hop 192.0.2.1; community 65000:1 65000:2; }', '65000:2'),
        ('6b', 'route 10.0.0.0/24 { next-hop 192.0.2.1; med 5 6; }', None),
        ('6c', 'route 10.0.0.0/24 { next-hop 192.0.2.1 192.0.2.2; }', None),
        ('7a', 'route 10.0.0.0/24 next-hop 192.0.2.1 community [ 65000:1 ] community [ 65000:2 ]', '65000:2'),
        ('7b', 'route 10.0.0.0/24 next-hop 192.0.2.1 med 1 med 2', 'med 2'),
    ]:
        state, routes = parse('route', text)
        observed = state
        bad = False
        if state == 'ok':
            observed = 'accepted as: ' + routes[0].extensive()
            bad = needle is None or needle not in routes[0].extensive()
        report(ident, 'part of the text is accepted and silently dropped', text, observed, 'refused, or every value carried', bad)
    text = 'flow route { match { destination 10.0.0.0/24; } then { redirect "[2001:db8::1]:5"; redirect-to-nexthop-ietf 2001:db8::2; } }'
    state, routes = parse('flow', text)
    observed = state
    bad = False
    if state == 'ok':
        observed = 'accepted as: ' + routes[0].extensive()
        bad = '2001:db8::2' not in routes[0].extensive().lower()
    report('7c', 'second IPv6 extended community action silently dropped', text, observed, 'refused, or both actions carried', bad)


# ------------------------------------------------------------------------------------------------------------------
# 8. withdraw of a labelled / VPN route written without its label


def check_withdraw_without_label() -> None:
    for ident, kind, text in [
        ('8a', 'route', 'route 10.0.0.0/24 rd 65000:1'),
        ('8b', 'v4', 'ipv4 mpls-vpn 10.0.0.0/24 rd 65000:1'),
        ('8c', 'v4', 'ipv4 nlri-mpls 10.0.0.0/24'),
    ]:
        state, routes = parse(kind, text, 'withdraw')
        observed = state
        bad = False
        if state == 'ok':
            written = str(routes[0].nlri)
            back = []
            for name, st, msgs in encode(routes, only=[IBGP], action='withdraw'):
                if st != 'ok':
                    back.append('encode raised %r' % (msgs,))
                    bad = True
                    continue
                for msg in msgs:
                    try:
                        back += [str(n) for n in decode(msg, name).withdraws]
                    except BaseException as exc:  # noqa: BLE001
                        back.append('own decoder: %s' % str(exc)[:100])
                    bad = bad or not any(written.split(' ')[0] in b for b in back)
            observed = 'accepted as "%s"; the MP_UNREACH_NLRI sent reads back as %s' % (written, back)
        report(ident, 'withdraw without a label: the NLRI is sent without its label field (misframed)', 'withdraw ' + text, observed, 'the withdrawn prefix reads back (label field present, e.g. 0x800000), or refused', bad)


# ------------------------------------------------------------------------------------------------------------------
# 9. MUP prefixes of the other family


def check_mup_family() -> None:
    for ident, kind, text in [
        ('9a', 'v4', 'ipv4 mup mup-isd 2001:db8::/64 rd 100:100 next-hop 2001:db8::1'),
        ('9b', 'v4', 'ipv4 mup mup-t1st 2001::/16 rd 100:100 teid 1 qfi 6 endpoint 10.0.0.1 next-hop 10.0.0.2'),
        ('9c', 'v6', 'ipv6 mup mup-isd 10.0.1.0/24 rd 100:100 next-hop 2001:db8::1'),
    ]:
        state, routes = parse(kind, text)
        observed = state
        bad = False
        if state == 'ok':
            try:
                shown = str(routes[0].nlri)
            except BaseException as exc:  # noqa: BLE001
                shown = 'str(nlri) raised %s: %s' % (type(exc).__name__, exc)
                bad = True
            back = []
            for name, st, msgs in encode(routes, only=[IBGP]):
                for msg in msgs if st == 'ok' else []:
                    try:
                        back += [str(r.nlri) for r in decode(msg, name).announces]
                    except BaseException as exc:  # noqa: BLE001
                        back.append('own decoder: %s' % str(exc)[:110])
                        bad = True
            written = text.split()[3]
            if written not in shown:
                bad = True
            observed = 'accepted as "%s"; wire reads back as %s' % (shown, back)
        report(ident, 'mup prefix of the other address family accepted', text, observed, 'refused (as announce ipv4 unicast 2001:db8::/64 is)', bad)

    # the API answer for 9a: an error reply AND the route queued for the peer
    from exabgp.reactor.api.command import announce as announce_cmd

    class _Processes:
        def __init__(self) -> None:
            self.answers: list[tuple] = []

        def get_sync(self, service: str) -> bool:
            return False

        async def answer_done(self, service: str) -> None:
            self.answers.append(('done',))

        async def answer_error(self, service: str, message: str = '') -> None:
            self.answers.append(('error', message))

    class _Async:
        def __init__(self) -> None:
            self.todo: list = []

        def schedule(self, uid: str, command: str, callback) -> None:
            self.todo.append(callback)

    class _Reactor:
        def __init__(self, families: str) -> None:
            from exabgp.rib import RIB

            RIB._cache.clear()
            self.configuration = create_minimal_configuration(families=families)
            self.processes = _Processes()
            self.asynchronous = _Async()
            self._peers: dict = {}

    def through_handler(families: str, handler: str, command: str, action: str):
        reactor = _Reactor(families)
        api = API(reactor)  # type: ignore[arg-type]
        peers = list(reactor.configuration.neighbors)
        getattr(announce_cmd, handler)(api, reactor, 'svc', peers, command, False, action=action)
        for callback in reactor.asynchronous.todo:
            asyncio.run(callback)
        neighbor = list(reactor.configuration.neighbors.values())[0]
        return reactor.processes.answers, len(neighbor.rib.outgoing._new_nlri)

    text = 'ipv4 mup mup-isd 2001:db8::/64 rd 100:100 next-hop 2001:db8::1'
    answers, queued = through_handler('ipv4 unicast ipv4 mup', 'announce_ipv4', text, 'announce')
    report('9d', 'the API answers "error" and the route is in the Adj-RIB-Out all the same', 'announce ' + text, 'answers %s, routes queued for the peer: %d' % (answers, queued), 'error and nothing queued, or done and queued', answers[:1] == [('error', '')] and queued > 0)

    # 13. a family none of the selected neighbors has
    text = 'route 2001:db8::/32 next-hop 2001:db8::1'
    answers, queued = through_handler('ipv4 unicast', 'announce_route', text, 'announce')
    report('13', 'route of a family no selected neighbor has: answered "done", nothing will ever be sent', 'announce ' + text + '   (neighbor: ipv4 unicast only)', 'answers %s, routes queued for the peer: %d' % (answers, queued), 'an error reply', answers == [('done',)] and queued == 0)


# ------------------------------------------------------------------------------------------------------------------
# 10. split accepted and not applied


def check_split_ignored() -> None:
    text = 'ipv4 unicast 10.0.0.0/24 next-hop 192.0.2.1 split /25'
    state, routes = parse('v4', text)
    observed = state if state != 'ok' else 'accepted as ' + ', '.join(str(r.nlri) for r in routes)
    same = 'route 10.0.0.0/24 next-hop 192.0.2.1 split /25'
    state2, routes2 = parse('route', same)
    observed += '   ("%s" gives %s)' % (same, ', '.join(str(r.nlri) for r in routes2) if state2 == 'ok' else state2)
    report('10', '"announce ipv4 unicast ... split /25": split accepted, not applied', 'announce ' + text, observed, '10.0.0.0/25 and 10.0.0.128/25, or refused', state == 'ok' and len(routes) == 1)


# ------------------------------------------------------------------------------------------------------------------
# 11. bgp-prefix-sid SRGB with a missing range takes the range of the previous one


def check_prefix_sid() -> None:
    text = 'route 10.0.0.0/24 next-hop 192.0.2.1 bgp-prefix-sid [ 5, [ ( 100,200 ), ( 300 ) ] ]'
    state, routes = parse('route', text)
    observed = state if state != 'ok' else 'accepted as: ' + routes[0].extensive()
    report('11', 'an SRGB written without its range is given the range of the one before', text, observed, 'refused (as "[ 5, [ ( 300 ) ] ]" is)', state == 'ok')


# ------------------------------------------------------------------------------------------------------------------
# 12. attributes which fit an attribute and no message


def check_too_large_for_a_message() -> None:
    text = 'route 10.0.0.0/24 next-hop 192.0.2.1 community [ %s ]' % ' '.join('%d:%d' % (i >> 8, i & 255) for i in range(16383))
    state, routes = parse('route', text)
    observed = state
    bad = False
    if state == 'ok':
        sizes = {}
        for name, st, msgs in encode(routes):
            sizes[name] = 'raised' if st != 'ok' else len(msgs)
        observed = 'accepted; messages per session type: %s' % sorted(set(sizes.values()))
        bad = set(sizes.values()) == {0}
    report('12', '16383 communities (65532 bytes): accepted, sent on no session at all, no error', text[:90] + ' ...', observed, 'refused at parse time (it fits no UPDATE, 4096 or 65535)', bad)


# ------------------------------------------------------------------------------------------------------------------
# 14. a flow component given twice


def check_flow_component_twice() -> None:
    text = 'flow route { match { destination 10.0.0.0/24; destination 10.0.1.0/24; } then { discard; } }'
    state, routes = parse('flow', text)
    observed = state
    bad = False
    if state == 'ok':
        wire = []
        for name, st, msgs in encode(routes, only=[IBGP]):
            wire += [m[19:].hex() for m in msgs] if st == 'ok' else ['raised']
        observed = 'accepted as "%s"; NLRI on the wire has two type-1 components: %s' % (routes[0].nlri, [w[-24:] for w in wire])
        bad = True
    report('14', 'two destination prefixes in one flow (RFC 8955 4: a component type appears at most once)', text, observed, 'refused', bad)


# ------------------------------------------------------------------------------------------------------------------
# 15. smaller ones


def check_minor() -> None:
    text = 'flow route { match { destination 10.0.0.0/24; } then { rate-limit 1000000000001; } }'
    state, routes = parse('flow', text)
    observed = state if state != 'ok' else 'accepted as: ' + routes[0].extensive()
    report('15a', 'rate-limit above 10^12 is accepted and announced as another value', text, observed, 'refused, or the value written', state == 'ok' and '1000000000001' not in observed)
    text = 'flow route { match { destination 10.0.0.0/24; } then { action unsampled; } }'
    state, routes = parse('flow', text)
    observed = state if state != 'ok' else 'accepted as: ' + routes[0].extensive()
    report('15b', 'any word containing "sample" or "terminal" is an action', text, observed, 'refused', state == 'ok')
    text = 'route 10.0.0.0/24 next-hop 192.0.2.1 label [ ]'
    state, routes = parse('route', text)
    observed = state if state != 'ok' else 'accepted as: %s (%s)' % (routes[0].extensive(), routes[0].nlri.family())
    report('15c', 'an empty label stack is accepted and the route announced as plain unicast', text, observed, 'refused', state == 'ok')
    text = 'flow route { match { destination 10.0.0.0/24; } then { redirect [2001:db8::1]:5; } }'
    state, routes = parse('flow', text)
    observed = state if state != 'ok' else 'accepted'
    if state == 'refused':
        observed = 'refused: ' + str(routes).strip().split('\n')[0]
    report('15d', 'the documented "redirect [ipv6]:nn" can only be written between quotes', text, observed, 'accepted (rt-redirect-ipv6, draft-ietf-idr-flow-spec-v6 / RFC 8956)', state != 'ok')


# ------------------------------------------------------------------------------------------------------------------
# 16. split without any bound


def check_split_unbounded() -> None:
    import subprocess
    import time

    text = 'route 0.0.0.0/0 next-hop 192.0.2.1 split /32'
    code = (
        'import sys; sys.path.insert(0, %r); import resource; '
        'resource.setrlimit(resource.RLIMIT_AS, (3 << 30, 3 << 30)); '
        'from harness import parse; s, v = parse("route", %r); print(s, len(v) if s == "ok" else v)'
    ) % (os.path.dirname(os.path.abspath(__file__)), text)
    start = time.time()
    try:
        done = subprocess.run([sys.executable, '-c', code], capture_output=True, timeout=20)
        observed = 'returned after %.1fs: %s %s' % (time.time() - start, done.stdout.decode()[-120:].strip(), done.stderr.decode()[-120:].strip())
        bad = b'MemoryError' in done.stderr or b'MemoryError' in done.stdout
    except subprocess.TimeoutExpired:
        observed = 'no answer after 20 seconds (the command builds 2^32 routes in memory before anything is answered)'
        bad = True
    report('16', 'split is not bounded: one API line keeps the (single threaded) reactor busy until memory runs out', 'announce ' + text, observed, 'refused (or bounded)', bad)


def main() -> int:
    for check in (
        check_nexthop_family,
        check_nexthop_twice,
        check_untyped,
        check_prefix_garbage,
        check_dropped_values,
        check_withdraw_without_label,
        check_mup_family,
        check_split_ignored,
        check_prefix_sid,
        check_too_large_for_a_message,
        check_flow_component_twice,
        check_minor,
        check_split_unbounded,
    ):
        try:
            check()
        except BaseException as exc:  # noqa: BLE001
            if isinstance(exc, (KeyboardInterrupt, SystemExit)):
                raise
            import traceback

            traceback.print_exc()
            PROBLEMS.append('%s crashed: %s' % (check.__name__, exc))
    print()
    print('%d problem(s): %s' % (len(PROBLEMS), ', '.join(PROBLEMS)))
    return 1 if PROBLEMS else 0


if __name__ == '__main__':
    sys.exit(main())
