#!/usr/bin/env python3
"""C16 baseline probe: inputs for which the UNCHANGED tree already breaks
"FlowSpec rules mean on the wire what they say in text".

Run:  cd <tree> && PYTHONPATH=<tree>/src /venv/bin/python _out/baseline_probe.py
Exit: 1 while at least one observation still reproduces, 0 when none does.

Every check goes through the real code: the configuration / API text parsers
(Configuration.partial), Flow.pack_nlri, NLRI.unpack_nlri, Flow.json and the
extended-community packers.  The expected bytes are written out by hand from
RFC 8955 / RFC 8956, not produced by ExaBGP.
"""

from __future__ import annotations

import os
import sys
import traceback

os.environ.setdefault('exabgp_log_enable', 'false')

from exabgp.bgp.message.action import Action  # noqa: E402
from exabgp.bgp.message.update.nlri.nlri import NLRI  # noqa: E402
from exabgp.configuration.configuration import Configuration  # noqa: E402
from exabgp.protocol.family import AFI, SAFI  # noqa: E402

V4, V6 = AFI.ipv4, AFI.ipv6
FLOW, FLOWVPN = SAFI.flow_ip, SAFI.flow_vpn


# ----------------------------------------------------------------------------- helpers


def flow_text(line: str, configuration: Configuration | None = None):
    """`announce flow <line>`  (line = 'route { match {..} then {..} }' or 'route <one line>')."""
    configuration = configuration or Configuration([])
    configuration.flow.clear()
    if not configuration.partial('flow', line, 'announce'):
        raise ValueError(str(configuration.error))
    configuration.scope.to_context()
    return configuration.scope.pop_routes()


def family_text(afi_name: str, line: str, configuration: Configuration | None = None):
    """`announce ipv4|ipv6 <line>`  (line = 'flow ...' or 'flow-vpn ...')."""
    configuration = configuration or Configuration([])
    configuration.static.clear()
    if not configuration.partial(afi_name, line, 'announce'):
        raise ValueError(str(configuration.error))
    configuration.scope.to_context()
    return configuration.scope.pop_routes()


def wire(route) -> bytes:
    return bytes(route.nlri.pack_nlri(None))


def decode(afi: AFI, safi: SAFI, data: bytes):
    nlri, left = NLRI.unpack_nlri(afi, safi, data, Action.ANNOUNCE, None, None)
    return nlri, bytes(left)


def show(nlri) -> str:
    return 'INVALID' if nlri is NLRI.INVALID else nlri.json()


OBSERVATIONS: list[tuple[str, str, object]] = []


def observation(ident: str, title: str):
    def register(function):
        OBSERVATIONS.append((ident, title, function))
        return function

    return register


# ----------------------------------------------------------------------------- observations
# each function returns (reproduced: bool, what was observed, what was expected)


@observation('B01', 'IPv6 prefix with an offset is not encoded / decoded as RFC 8956 3.1 (pattern is length-offset bits)')
def b01():
    # RFC 8956 3.8.2 gives this very rule and its bytes: 01 68 40 12 34 56 78 9a
    (route,) = flow_text('route { match { destination ::1234:5678:9a00:0/104/64; } then { discard; } }')
    got = wire(route)
    expected = bytes.fromhex('08' '01' '68' '40' '123456789a')
    nlri, _ = decode(V6, FLOW, expected)
    observed = 'text->wire %s ; RFC bytes %s decode to %s' % (got.hex(), expected.hex(), show(nlri))
    wanted = 'text->wire %s ; RFC bytes decode to destination ::1234:5678:9a00:0/104 offset 64' % expected.hex()
    return got != expected or nlri is NLRI.INVALID, observed, wanted


@observation('B02', 'IPv6 prefix whose offset is not below its length is accepted (text and wire); RFC 8956 3.1 calls it malformed')
def b02():
    text_ok = True
    try:
        (route,) = flow_text('route { match { destination 2001:db8::/32/64; } then { discard; } }')
        sent = wire(route).hex()
    except ValueError as exc:
        text_ok, sent = False, 'refused (%s)' % exc
    nlri, _ = decode(V6, FLOW, bytes.fromhex('07' '01' '20' '40' '20010db8'))
    observed = 'text /32/64 -> %s ; wire 0701204020010db8 -> %s' % (sent, show(nlri))
    return text_ok or nlri is not NLRI.INVALID, observed, 'both refused (offset < length is required unless both are 0)'


@observation('B03', '`announce ipv4 flow-vpn ...` without rd puts a flow-vpn NLRI on the wire that has no route distinguisher')
def b03():
    (route,) = family_text('ipv4', 'flow-vpn destination 10.0.0.0/8 discard')
    got = wire(route)
    observed = 'safi=%s nlri=%s (body is %d bytes, an RD alone takes 8)' % (route.nlri.safi, got.hex(), len(got) - 1)
    return route.nlri.safi == FLOWVPN and len(got) - 1 < 8 + 3, observed, 'refused, or 8 RD bytes before 01 08 0a'


@observation('B04', '`announce ipv4 flow rd ...` keeps SAFI 133 but prepends the RD: the RD bytes are read as components by any peer')
def b04():
    (route,) = family_text('ipv4', 'flow rd 65000:1 destination 10.0.0.0/8 discard')
    got = wire(route)
    nlri, _ = decode(route.nlri.afi, route.nlri.safi, got)
    observed = 'safi=%s nlri=%s ; the same bytes decoded in that family: %s' % (route.nlri.safi, got.hex(), show(nlri))
    bad = route.nlri.safi == FLOW and got[1:9] == bytes.fromhex('0000fde800000001')
    return bad, observed, 'safi flow-vpn (as `announce flow route { rd ..; }` does) or the rd refused'


@observation('B05', '`announce ipv4 flow destination <ipv6>` / `announce ipv6 flow destination <ipv4>`: prefix encoded for the other family')
def b05():
    (r4,) = family_text('ipv4', 'flow destination 2001:db8::/32 discard')
    (r6,) = family_text('ipv6', 'flow destination 10.0.0.0/8 discard')
    w4, w6 = wire(r4), wire(r6)
    d4, _ = decode(r4.nlri.afi, r4.nlri.safi, w4)
    d6, _ = decode(r6.nlri.afi, r6.nlri.safi, w6)
    observed = 'afi=%s nlri=%s -> peer reads %s ; afi=%s nlri=%s -> peer reads %s' % (
        r4.nlri.afi, w4.hex(), show(d4), r6.nlri.afi, w6.hex(), show(d6),
    )  # fmt: skip
    bad4 = r4.nlri.afi == V4 and w4 == bytes.fromhex('0701200020010db8')  # v6 layout (offset byte) under AFI 1
    bad6 = r6.nlri.afi == V6 and w6 == bytes.fromhex('0301080a')  # v4 layout (no offset byte) under AFI 2
    return bad4 or bad6, observed, 'refused, or the AFI follows the prefix as it does in `announce flow route {..}`'


@observation('B06', 'IPv6-only component in an IPv4 flow: `flow-label` (type 13) sent under AFI ipv4')
def b06():
    (route,) = flow_text('route { match { flow-label 5; destination 10.0.0.0/8; } then { discard; } }')
    got = wire(route)
    nlri, _ = decode(route.nlri.afi, route.nlri.safi, got)
    observed = 'afi=%s nlri=%s ; own decoder: %s' % (route.nlri.afi, got.hex(), show(nlri))
    return route.nlri.afi == V4 and b'\x0d\x81\x05' in got, observed, 'refused (RFC 8955 defines types 1..12 for IPv4), as it is when destination comes first'


@observation('B07', 'AFI of the previous API command leaks into the next one-line `route ...` / `announce ipv4 flow ...`')
def b07():
    configuration = Configuration([])
    line = 'route protocol tcp destination 10.0.0.0/8 discard'
    first = wire(flow_text(line, configuration)[0]).hex()
    flow_text('route destination 2001:db8::/32 next-header tcp discard', configuration)
    try:
        second = wire(flow_text(line, configuration)[0]).hex()
    except ValueError as exc:
        second = 'refused: %s' % str(exc).strip().splitlines()[-1]
    observed = 'before an IPv6 flow: %s ; the same command after it: %s' % (first, second)
    return first != second, observed, 'the same bytes both times'


@observation('B08', 'reserved operator bits are not ignored on decode and are rendered as digits in front of the value')
def b08():
    # 05 = destination-port, 0x89 = end-of-list | reserved 0x08 | EQ, value 80.  RFC 8955 4.2.1.1: "MUST be ignored"
    n1, _ = decode(V4, FLOW, bytes.fromhex('03058950'))
    n2, _ = decode(V4, FLOW, bytes.fromhex('03098c02'))  # tcp-flags, reserved 0x0c set, value syn
    observed = '03058950 -> %s ; 03098c02 -> %s' % (show(n1), show(n2))
    bad = n1 is not NLRI.INVALID and '"0980"' in n1.json()
    return bad, observed, 'destination-port "=80" and tcp-flags "syn"'


@observation('B09', 'a component type that appears twice / out of order is merged into one OR list instead of being refused')
def b09():
    n1, _ = decode(V4, FLOW, bytes.fromhex('06' '058150' '058151'))
    n2, _ = decode(V4, FLOW, bytes.fromhex('06' '058150' '01080a'))
    observed = '06058150058151 -> %s ; 0605815001080a -> %s' % (show(n1), show(n2))
    bad = n1 is not NLRI.INVALID and '"=80", "=81"' in n1.json()
    return bad or n2 is not NLRI.INVALID, observed, 'INVALID (RFC 8955 4.2: strictly increasing types, each at most once)'


@observation('B10', 'a flow-vpn NLRI too short to hold its RD is delivered as a rule without RD')
def b10():
    nlri, _ = decode(V4, FLOWVPN, bytes.fromhex('03038106'))
    return nlri is not NLRI.INVALID, '03038106 under ipv4 flow-vpn -> %s' % show(nlri), 'INVALID (8 RD bytes come first)'


@observation('B11', '`redirect "[<ipv6>]:nn"` is sent as a 20 byte route-target (0x0002) inside attribute 16')
def b11():
    (route,) = flow_text('route { match { destination 10.0.0.0/8; } then { redirect "[2001:db8::1]:100"; } }')
    packed = [(attribute.ID, bytes(attribute.pack_attribute(None))) for attribute in route.attributes.values()]
    observed = ' '.join('attribute %d = %s' % (code, data.hex()) for code, data in packed)
    try:
        str(route.attributes)
    except Exception as exc:  # noqa: BLE001
        observed += ' ; str(attributes) raises %s: %s' % (type(exc).__name__, exc)
    bad = any(code == 16 and (len(data) - 3) % 8 for code, data in packed)
    wanted = 'attribute 25 (IPv6 address specific) carrying 000d 2001:db8::1 0064 (RFC 8956 section 6, rt-redirect-ipv6)'
    return bad, observed, wanted


@observation('B12', 'rate-limit above 10^12 is silently replaced by 10^12')
def b12():
    (route,) = flow_text('route { match { destination 10.0.0.0/8; } then { rate-limit 2000000000000; } }')
    data = bytes(next(iter(route.attributes.values())).pack_attribute(None))
    import struct

    rate = struct.unpack('!f', data[-4:])[0]
    return rate < 1.9e12, 'text 2000000000000 -> community %s = %d bytes/s' % (data[3:].hex(), rate), 'about 2e12, or the command refused'


@observation('B13', 'two `destination` lines give two type 1 components in one NLRI')
def b13():
    (route,) = flow_text('route { match { destination 10.0.0.0/8; destination 11.0.0.0/8; } then { discard; } }')
    got = wire(route)
    return got == bytes.fromhex('0601080a01080b'), 'nlri=%s' % got.hex(), 'refused (a type appears at most once); the code comment says this is deliberate'


# ----------------------------------------------------------------------------- main


def main() -> int:
    reproduced = 0
    for ident, title, function in OBSERVATIONS:
        try:
            bad, observed, expected = function()
        except Exception:  # noqa: BLE001
            bad, observed, expected = True, 'probe raised:\n' + traceback.format_exc(), 'no exception'
        print('%s %s  %s' % ('REPRODUCED' if bad else 'not seen  ', ident, title))
        print('    observed: %s' % observed)
        print('    expected: %s' % expected)
        reproduced += 1 if bad else 0
    print('%d of %d observations reproduced' % (reproduced, len(OBSERVATIONS)))
    return 1 if reproduced else 0


if __name__ == '__main__':
    sys.exit(main())
