"""C07 baseline probe: inputs / configurations for which the UNCHANGED tree does not compute the RFC function of the two
OPENs.  Every check drives the real code (configuration parser -> Neighbor -> Capabilities.new -> Open.pack_message ->
Message.unpack -> Negotiated.sent/received/validate, and for two of them the real Peer._establish / Protocol over a fake
connection object).  Exit status 1 while at least one problem is present.

Run:  cd /tmp/seed/C07c && PYTHONPATH=/tmp/seed/C07c/src /venv/bin/python _out/baseline_probe.py
"""
import asyncio
import collections
import os
import struct
import sys

sys.path.insert(0, os.path.dirname(os.path.abspath(__file__)))
from common import neighbor, our_open, negotiate, peer_open_body, capa, decode_open, MP_V4  # noqa: E402
from exabgp.bgp.message import Notify  # noqa: E402
from exabgp.protocol.family import AFI, SAFI  # noqa: E402
from exabgp.reactor.peer.peer import Peer  # noqa: E402
from exabgp.reactor.protocol import Protocol  # noqa: E402

PROBLEMS = []


def report(ident, present, expected, observed):
    print('[%s] %s\n      expected: %s\n      observed: %s' % ('PROBLEM' if present else 'ok', ident, expected, observed))
    if present:
        PROBLEMS.append(ident)


def outcome(fn):
    try:
        return ('ok', fn())
    except Notify as exc:
        return ('notify', (exc.code, exc.subcode, bytes(exc.data)))
    except Exception as exc:  # noqa: BLE001 - an untyped exception is one of the things looked for
        return ('exception', '%s: %s' % (type(exc).__name__, exc))


ASN4_65002 = capa(65, struct.pack('!L', 65002))

# ---------------------------------------------------------------------------------------------------------------- B01
# RFC 9072 section 2: extended encoding is signalled by Non-Ext OP Type == 255; Non-Ext OP Len "SHOULD be 255 ... MUST be
# ignored on receipt".  Capabilities.unpack only looks at the type when the length octet is 255.
ext = b'\x02' + struct.pack('!H', len(MP_V4) - 2) + MP_V4[2:]
raw = b'\x10\xff' + struct.pack('!H', len(ext)) + ext
kind, val = outcome(lambda: str(decode_open(peer_open_body(raw_opt=raw)).capabilities))
report('B01 RFC 9072 OPEN with Non-Ext OP Len 0x10, Non-Ext OP Type 255', kind != 'ok',
       'decoded as extended: Multiprotocol(ipv4 unicast)', (kind, val))

# ---------------------------------------------------------------------------------------------------------------- B02
# RFC 4271 6.2: an unrecognised Optional Parameter -> subcode 4 Unsupported Optional Parameter.
kind, val = outcome(lambda: decode_open(peer_open_body(params=b'\x03\x01\x00')))
report('B02 OPEN with optional parameter type 3', not (kind == 'notify' and val[:2] == (2, 4)),
       'NOTIFICATION 2/4 (Unsupported Optional Parameter)', (kind, val))

# ---------------------------------------------------------------------------------------------------------------- B03
# Optional Parameters Length says 0 (or N) but more octets follow inside the message: the lengths are inconsistent.
kind, val = outcome(lambda: str(decode_open(peer_open_body(raw_opt=b'\x00\xde\xad\xbe\xef')).capabilities))
report('B03 OPEN with 4 octets after the end of the optional parameters', kind == 'ok',
       'refused (message length and Optional Parameters Length disagree)', (kind, val))

# ---------------------------------------------------------------------------------------------------------------- B04
# RFC 7911 section 4: Send/Receive other than 1, 2, 3 -> "the capability SHOULD be treated as not understood and ignored"
n = neighbor(cap='add-path send/receive;', extra='add-path { ipv4 unicast; }')
neg, err = negotiate(n, peer_open_body(params=MP_V4 + capa(69, b'\x00\x01\x01\x07')))
got = (neg.addpath.send(AFI.ipv4, SAFI.unicast), neg.addpath.receive(AFI.ipv4, SAFI.unicast))
report('B04 peer ADD-PATH Send/Receive octet 7', got != (False, False),
       'ADD-PATH not in force for ipv4 unicast (send False, receive False)', 'send %s receive %s validate %s' % (got + (err,)))

# ---------------------------------------------------------------------------------------------------------------- B05
# RFC 6286 2.1 / RFC 4271 6.2: on an internal session the BGP Identifier must differ -> 2/3 Bad BGP Identifier.
# validate() compares the 2 octet My AS field (AS_TRANS) with the configured local AS, so a 4 octet AS never matches.
n2 = neighbor(local_as='65001', peer_as='65001')
_, err2 = negotiate(n2, peer_open_body(asn2=65001, rid='1.2.3.4', params=MP_V4 + capa(65, struct.pack('!L', 65001))))
n4 = neighbor(local_as='70000', peer_as='70000')
neg4, err4 = negotiate(n4, peer_open_body(asn2=23456, rid='1.2.3.4', params=MP_V4 + capa(65, struct.pack('!L', 70000))))
report('B05 iBGP AS 70000 both sides, peer BGP Identifier equal to ours', err4 is None,
       'refused 2/3 as with a 2 octet AS (AS 65001: %s)' % (err2,),
       'local_as %s peer_as %s is_ibgp %s validate %s' % (neg4.local_as, neg4.peer_as, neg4.is_ibgp, err4))

# ---------------------------------------------------------------------------------------------------------------- B07
# RFC 6793 4.1: a NEW speaker's AS number is the one in the capability.  My AS 65002 + capability 65009 is taken as 65002.
n = neighbor()
neg, err = negotiate(n, peer_open_body(asn2=65002, params=MP_V4 + capa(65, struct.pack('!L', 65009))))
report('B07 peer My AS 65002 but 4 octet AS capability 65009 (peer-as 65002 configured)', err is None,
       'refused 2/2 Bad Peer AS (the AS the peer states in the capability is not the configured one)',
       'asn4 %s peer_as %s validate %s' % (neg.asn4, neg.peer_as, err))

# ---------------------------------------------------------------------------------------------------------------- B08
# RFC 7607: AS 0 in an OPEN MUST be refused with 2/2 Bad Peer AS.  With `peer-as auto` nothing looks at the value.
n = neighbor(peer_as='auto')
neg, err = negotiate(n, peer_open_body(asn2=0, params=MP_V4))
neg_b, err_b = negotiate(n, peer_open_body(asn2=23456, params=MP_V4 + capa(65, struct.pack('!L', 0))))
report('B08 peer-as auto, peer OPEN with AS 0 (field, or AS_TRANS + capability 0)', err is None or err_b is None,
       'refused 2/2', 'field 0: peer_as %s validate %s ; capability 0: peer_as %s validate %s' % (neg.peer_as, err, neg_b.peer_as, err_b))


# ------------------------------------------------------------------------------------------- real Peer._establish harness
class FakeConnection:
    def __init__(self, inbound):
        self.out = []
        self.inbound = list(inbound)
        self.msg_size = 4096  # what reactor/network/connection.py starts with

    async def writer_async(self, raw):
        self.out.append(raw)

    async def reader_async(self):
        raw = self.inbound.pop(0)
        return struct.unpack('!H', raw[16:18])[0], raw[18], raw[:19], raw[19:], None

    def session(self):
        return 'fake'

    def fd(self):
        return -1

    def close(self):
        pass


class FakeReactor:
    processes = None


def establish(n, peer_body):
    n.api = collections.defaultdict(bool)
    peer = Peer(n, FakeReactor())
    proto = Protocol(peer)
    marker = b'\xff' * 16
    proto.connection = FakeConnection([
        marker + struct.pack('!HB', 19 + len(peer_body), 1) + peer_body,
        marker + struct.pack('!HB', 19, 4),
    ])
    peer.proto = proto
    asyncio.run(peer._establish())
    return peer, proto


# ---------------------------------------------------------------------------------------------------------------- B06
# A peer which sends no Multiprotocol capability speaks IPv4 unicast (RFC 4271 / RFC 4760 8): the families in force with
# a neighbor configured for ipv4 unicast are {ipv4 unicast}.  negotiated.families is [] and the configured route is dropped.
n = neighbor(extra='static { route 192.0.2.0/24 next-hop 10.0.0.1; }')
peer, proto = establish(n, peer_open_body(params=b''))
before = len(proto.connection.out)


async def _announce():
    await proto.new_update(False)
    await proto.new_eors()


asyncio.run(_announce())
sent_types = [m[18] for m in proto.connection.out[before:]]
report('B06 peer OPEN without any capability, we are configured for ipv4 unicast with one static route',
       (AFI.ipv4, SAFI.unicast) not in proto.negotiated.families or 2 not in sent_types,
       'fsm ESTABLISHED, families [(ipv4, unicast)], one UPDATE (type 2) sent',
       'fsm %s, families %s, message types sent after establishment %s' % (peer.fsm.name(), proto.negotiated.families, sent_types))

# ---------------------------------------------------------------------------------------------------------------- B09/B10
# local-as auto: the OPEN we send must carry the mirrored AS in both places, and the extended message size agreed by the
# two OPENs must be the one the connection enforces.
for label, asn2, cap_as in (('2 octet peer AS 65002', 65002, 65002), ('4 octet peer AS 70000', 23456, 70000)):
    n = neighbor(local_as='auto', peer_as=str(cap_as))
    peer, proto = establish(n, peer_open_body(asn2=asn2, params=MP_V4 + capa(65, struct.pack('!L', cap_as)) + capa(6, b'')))
    sent = decode_open(proto.connection.out[0][19:])
    asn4_sent = int(sent.capabilities[65])
    report('B09 local-as auto, %s: AS numbers in the OPEN we send / in Negotiated' % label,
           asn4_sent != cap_as or proto.negotiated.local_as != cap_as,
           'My AS %d, 4 octet AS capability %d, negotiated.local_as %d' % (asn2, cap_as, cap_as),
           'My AS %d, 4 octet AS capability %d, negotiated.local_as %d, is_ibgp %s' % (
               sent.asn, asn4_sent, proto.negotiated.local_as, proto.negotiated.is_ibgp))
report('B10 local-as auto, both OPENs carry Extended Message',
       proto.connection.msg_size != proto.negotiated.msg_size,
       'connection.msg_size == negotiated.msg_size == 65535',
       'negotiated.msg_size %d, connection.msg_size %d (set in Peer._establish before our OPEN exists)' % (
           proto.negotiated.msg_size, proto.connection.msg_size))

# ---------------------------------------------------------------------------------------------------------------- B11
# multi-session enabled: our OPEN must survive encode/decode, and any peer OPEN must give a result or a NOTIFICATION.
n = neighbor(cap='multi-session enable;')
so = our_open(n)
wire = so.pack_message(None)
back = decode_open(wire[19:])
report('B11a multi-session enable: our OPEN through pack_message / Message.unpack',
       str(so.capabilities[0x44]) != str(back.capabilities[0x44]) or wire.count(b'\x02\x03\x44\x01') != 1,
       'one capability 68 TLV, decoding to %r' % str(so.capabilities[0x44]),
       '%d capability 68 TLVs (%s), decoding to %r' % (wire.count(b'\x02\x03\x44\x01'), wire[19 + 10:].hex(), str(back.capabilities[0x44])))
kind, val = outcome(lambda: negotiate(n, peer_open_body(params=capa(0x44, b'\x00\x01')))[1])
report('B11b multi-session enable: peer OPEN with capability 68 and no Multiprotocol capability', kind == 'exception',
       'a validate() verdict or a Notify', (kind, val))

# ---------------------------------------------------------------------------------------------------------------- B12
# host-name longer than 64 octets is cut at 64 octets, in the middle of a character: our own decoder refuses our OPEN.
n = neighbor(extra='host-name %s;' % ('a' + 'é' * 32))
wire = our_open(n).pack_message(None)
kind, val = outcome(lambda: str(decode_open(wire[19:]).capabilities[73]))
report('B12 host-name "a" + 32 x "e-acute" (65 octets of UTF-8): our OPEN through Message.unpack', kind != 'ok',
       'decodes (a host name cut at a character boundary)', (kind, val))

# ---------------------------------------------------------------------------------------------------------------- B13
# graceful-restart without a value takes the hold time; the wire field is 12 bits and the value is masked, not capped.
n = neighbor(cap='graceful-restart;', extra='hold-time 5000;')
wire_time = decode_open(our_open(n).pack_message(None)[19:]).capabilities[64].restart_time
report('B13 "graceful-restart;" with "hold-time 5000;"', wire_time != n.capability.graceful_restart.time,
       'restart time on the wire == configured restart time (%d), or the configuration refused / capped at 4095' % n.capability.graceful_restart.time,
       'restart time on the wire %d' % wire_time)

# ---------------------------------------------------------------------------------------------------------------- B14
# RFC 4271 6.2: Unsupported Version Number -> Data is a 2 octet unsigned integer, the largest supported version.
kind, val = outcome(lambda: decode_open(peer_open_body(version=5)))
report('B14 OPEN version 5', not (kind == 'notify' and val[:2] == (2, 1) and val[2] == b'\x00\x04'),
       'NOTIFICATION 2/1 with data 0004', (kind, val))

print('\n%d problem(s): %s' % (len(PROBLEMS), ', '.join(p.split()[0] for p in PROBLEMS)))
sys.exit(1 if PROBLEMS else 0)
