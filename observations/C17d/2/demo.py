"""Seed 2 demo: two reloads reach the peer before its loop has taken a turn (two SIGUSR1 in a row, a file written
twice by a deployment tool). The first removes a route, the second does something else.

Expected: after the second reload the peer holds exactly the routes of the last file: the route removed by the first
reload is withdrawn.
Run: cd <tree> && PYTHONPATH=<tree>/src /venv/bin/python _out/2/demo.py
"""
import os
import sys

sys.path.insert(0, os.path.join(os.path.dirname(os.path.abspath(__file__)), '..'))
from harness import World, NEIGHBOR, expected_view, report  # noqa: E402


def cfg(*routes: str) -> str:
    return NEIGHBOR % ('    static { ' + ' '.join(f'route {r} next-hop 1.1.1.1;' for r in routes) + ' }')


ok = True

# one reload at a time: fine with and without the change
world = World(cfg('10.0.0.0/24', '10.0.1.0/24', '10.0.2.0/24'))
session = world.session()
session.up()
world.reload(cfg('10.0.0.0/24', '10.0.2.0/24'))
session.turn()
world.reload(cfg('10.0.0.0/24', '10.0.2.0/24', '10.0.3.0/24'))
session.turn()
ok &= report('1. two reloads, the peer loop turning in between', session.view(), expected_view(session.peer.neighbor))
world.close()

# two reloads in a row
world = World(cfg('10.0.0.0/24', '10.0.1.0/24', '10.0.2.0/24'))
session = world.session()
session.up()
print('reload 1 (10.0.1.0/24 removed) ->', world.reload(cfg('10.0.0.0/24', '10.0.2.0/24')))
print('reload 2 (10.0.3.0/24 added)   ->', world.reload(cfg('10.0.0.0/24', '10.0.2.0/24', '10.0.3.0/24')))
session.turn()
print('sent since the reloads:', session.log[3:])
ok &= report('2. two reloads in a row, then the peer loop turns', session.view(), expected_view(session.peer.neighbor))

# ... and it stays wrong: the route is still in the Adj-RIB-Out, every later session gets it
session.down()
session.up()
ok &= report('3. table of the next session', session.view(), expected_view(session.peer.neighbor))
world.close()

sys.exit(0 if ok else 1)
