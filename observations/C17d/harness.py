"""harness.py -- drive the REAL Configuration / Reactor.reload / Peer.reconfigure / OutgoingRIB code without a
network, and rebuild what the remote peer holds from the UpdateCollections the RIB emits.

What is simulated (the network part only):
  * Session.up(): what Peer._main() does when a session reaches ESTABLISHED -- replace_restart(previous, routes),
    FSM to ESTABLISHED; the first window of updates is sent with include_withdraw False (peer table is empty).
  * Session.turn(): one or more turns of the Peer._main() loop -- take over peer._neighbor (reload hand-over),
    then drain rib.outgoing.updates() and replay announces / withdraws into the peer model.
  * Session.down(): what Peer._reset() does -- FSM IDLE, neighbor.reset_rib(), take over peer._neighbor.
Everything else (parsing, reload, the choice remove / new / reestablish / reconfigure, the RIB delta) is ExaBGP code.
"""

from __future__ import annotations

import os
import sys
import tempfile

os.environ.setdefault('exabgp_log_enable', 'false')
os.environ.setdefault('exabgp.log.enable', 'false')

from exabgp.environment import getenv  # noqa: E402

getenv().log.enable = False

from exabgp.configuration.configuration import Configuration  # noqa: E402
from exabgp.reactor.loop import Reactor  # noqa: E402
from exabgp.reactor.peer.peer import Peer  # noqa: E402
from exabgp.bgp.fsm import FSM  # noqa: E402
from exabgp.bgp.message.update.collection import UpdateCollection  # noqa: E402
from exabgp.rib import RIB  # noqa: E402


class FakeProcesses:
    def __init__(self):
        self.started = []
        self.answers = []

    def start(self, processes, restart=False):
        self.started.append((dict(processes), restart))

    def down(self, *a, **k):
        pass

    def up(self, *a, **k):
        pass

    def broken(self, neighbor):
        return False

    def answer_done(self, service, *a, **k):
        self.answers.append((service, 'done'))

    def answer_error(self, service, message='', *a, **k):
        self.answers.append((service, 'error', message))

    def write(self, *a, **k):
        pass

    def __getattr__(self, name):
        def _noop(*a, **k):
            return None

        return _noop


class World:
    """One ExaBGP process: a configuration file on disk, a Reactor, its Peers."""

    def __init__(self, text: str):
        RIB._cache.clear()
        fd, self.path = tempfile.mkstemp(suffix='.conf', prefix='c17d-')
        os.close(fd)
        self.write(text)
        self.configuration = Configuration([self.path])
        self.reactor = Reactor(self.configuration)
        self.reactor.processes = FakeProcesses()
        ok = self.configuration.reload()
        if ok is not True:
            raise RuntimeError('initial configuration refused: ' + str(self.configuration.error))
        for key, neighbor in self.configuration.neighbors.items():
            self.reactor._peers[key] = Peer(neighbor, self.reactor)
        self.sessions: dict[str, Session] = {}

    def write(self, text: str) -> None:
        with open(self.path, 'w') as handle:
            handle.write(text)

    def reload(self, text: str | None = None) -> bool:
        if text is not None:
            self.write(text)
        return self.reactor.reload()

    def session(self, key: str | None = None) -> 'Session':
        if key is None:
            key = list(self.reactor._peers)[0]
        if key not in self.sessions:
            self.sessions[key] = Session(self, key)
        return self.sessions[key]

    def close(self) -> None:
        try:
            os.unlink(self.path)
        except OSError:
            pass


def route_key(nlri) -> str:
    return f'{nlri.family().afi_safi()} {nlri.index().hex()}'


class Session:
    """The remote end of one peer: the table it has built from what it was sent."""

    def __init__(self, world: World, key: str):
        self.world = world
        self.key = key
        self.table: dict[str, str] = {}
        self.wire: dict[str, bytes] = {}
        self.first_window = True
        self.log: list[str] = []

    @property
    def peer(self) -> Peer:
        return self.world.reactor._peers[self.key]

    def up(self) -> None:
        peer = self.peer
        if peer._teardown:
            # Peer._main(): "if self._teardown: raise Notify(6, 3)" -> Peer._reset(), then the next session
            peer._teardown = None
            self.down()
        self.table = {}
        self.wire = {}
        self.first_window = True
        peer.fsm.change(FSM.ESTABLISHED)
        previous = peer.neighbor.previous.routes if peer.neighbor.previous else []
        peer.neighbor.rib.outgoing.replace_restart(previous, peer.neighbor.routes)
        peer.neighbor.previous = None
        self.turn()

    def down(self) -> None:
        peer = self.peer
        peer.fsm.change(FSM.IDLE)
        peer.neighbor.reset_rib()
        if peer._neighbor:
            peer.neighbor = peer._neighbor
            peer._neighbor = None
        self.table = {}
        self.wire = {}

    def turn(self) -> None:
        peer = self.peer
        if peer._neighbor:
            previous = peer._neighbor.previous.routes if peer._neighbor.previous else []
            peer.neighbor.rib.outgoing.replace_reload(previous, peer._neighbor.routes)
            peer._neighbor.previous = None
            peer._neighbor = None
        rib = peer.neighbor.rib.outgoing
        while rib.pending():
            include_withdraw = not self.first_window
            for update in rib.updates(peer.neighbor.group_updates):
                if not isinstance(update, UpdateCollection):
                    continue
                if include_withdraw:
                    for nlri in update.withdraws:
                        self.log.append(f'withdraw {nlri}')
                        self.table.pop(route_key(nlri), None)
                        self.wire.pop(route_key(nlri), None)
                for routed in update.announces:
                    text = f'{routed.nlri} next-hop {routed.nexthop}{update.attributes}'
                    self.log.append(f'announce {text}')
                    self.table[route_key(routed.nlri)] = text
                    self.wire[route_key(routed.nlri)] = wire_of(peer.neighbor, routed.nlri, routed.nexthop, update.attributes)
            self.first_window = False
        self.first_window = False

    def view(self) -> list[str]:
        return sorted(self.table.values())


def negotiated_for(neighbor):
    from exabgp.bgp.message.open.capability.negotiated import Negotiated
    from exabgp.bgp.message.direction import Direction

    negotiated = Negotiated.make_negotiated(neighbor, Direction.OUT)
    negotiated.families = neighbor.families()
    negotiated.asn4 = True
    negotiated.local_as = neighbor.session.local_as
    negotiated.peer_as = neighbor.session.peer_as
    return negotiated


def wire_of(neighbor, nlri, nexthop, attributes) -> bytes:
    """The UPDATE message(s) which announce this one route, as ExaBGP encodes them."""
    from exabgp.bgp.message.update.collection import RoutedNLRI

    update = UpdateCollection([RoutedNLRI(nlri, nexthop)], [], attributes)
    return b''.join(bytes(m) for m in update.messages(negotiated_for(neighbor), True))


def expected_wire(neighbor, extra=()) -> dict[str, bytes]:
    out = {}
    for route in list(neighbor.routes) + list(extra):
        out[route_key(route.nlri)] = wire_of(neighbor, route.nlri, route.nexthop, route.attributes)
    return out


def expected_view(neighbor, extra=()) -> list[str]:
    """What the configuration says the peer must hold: its routes, one per NLRI (the last one wins)."""
    out = {}
    for route in list(neighbor.routes) + list(extra):
        out[route_key(route.nlri)] = f'{route.nlri} next-hop {route.nexthop}{route.attributes}'
    return sorted(out.values())


def wire_diff(observed: dict, expected: dict) -> list[str]:
    """Readable difference of two {route key: UPDATE bytes} tables."""
    out = []
    for key in sorted(set(observed) | set(expected)):
        if observed.get(key) != expected.get(key):
            have = observed[key].hex() if key in observed else 'absent'
            want = expected[key].hex() if key in expected else 'absent'
            out.append(f'{key}: peer holds {have} / configuration says {want}')
    return out


NEIGHBOR = """
neighbor 127.0.0.2 {
    router-id 10.0.0.1;
    local-address 127.0.0.1;
    local-as 65000;
    peer-as 65001;
%s
}
"""


def report(name: str, observed, expected) -> bool:
    ok = observed == expected
    print(f'[{"ok" if ok else "VIOLATION"}] {name}')
    if not ok:
        print('    observed:')
        for line in observed if isinstance(observed, list) else [observed]:
            print(f'        {line}')
        print('    expected:')
        for line in expected if isinstance(expected, list) else [expected]:
            print(f'        {line}')
    return ok


if __name__ == '__main__':
    w = World(NEIGHBOR % '    static { route 10.0.0.0/24 next-hop 1.1.1.1; route 10.0.1.0/24 next-hop 1.1.1.1 med 5; }')
    s = w.session()
    s.up()
    print(s.view())
    print(w.reload(NEIGHBOR % '    static { route 10.0.0.0/24 next-hop 1.1.1.1; route 10.0.1.0/24 next-hop 1.1.1.1 med 7; }'))
    s.turn()
    print(s.view())
    print(expected_view(s.peer.neighbor))
    w.close()
    sys.exit(0)
