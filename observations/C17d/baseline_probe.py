"""baseline_probe.py -- inputs / histories for which the UNCHANGED tree violates C17
("configuration reload applies the difference, or nothing at all").

Run: cd <tree> && PYTHONPATH=<tree>/src /venv/bin/python _out/baseline_probe.py
Exit status 1 while at least one of the problems exists, 0 when none is left.

Everything is driven through the real Configuration.reload(), Reactor.reload(), Peer.reconfigure()/reestablish(),
OutgoingRIB.* ; only the network is replaced (see harness.py, which must stay next to this file).
"""

from __future__ import annotations

import os
import sys
import traceback

sys.path.insert(0, os.path.dirname(os.path.abspath(__file__)))
from harness import World, NEIGHBOR, expected_view, expected_wire, report, wire_diff  # noqa: E402

TWO = (
    NEIGHBOR
    + """
neighbor 127.0.0.3 {
    router-id 10.0.0.1;
    local-address 127.0.0.1;
    local-as 65000;
    peer-as 65001;
%s
}
"""
)


def static(*routes: str) -> str:
    return '    static { ' + ' '.join(f'route {r};' for r in routes) + ' }'


# ---------------------------------------------------------------------------------------------------------------------
def b01_rejected_file_reaches_the_peers() -> bool:
    """A reload which FAILS (error in the second neighbor) has already put the routes of the first neighbor of the
    rejected file into the live Adj-RIB-Out: they are sent."""
    old = TWO % (static('10.0.0.0/24 next-hop 1.1.1.1'), static('10.9.0.0/24 next-hop 1.1.1.1'))
    bad = TWO % (
        static('10.0.0.0/24 next-hop 2.2.2.2', '10.0.5.0/24 next-hop 1.1.1.1'),
        static('10.9.0.0/24 next-hop 1.1.1.1 bogus'),
    )
    ok = True
    for state in ('up', 'down'):
        world = World(old)
        session = world.session()
        session.up()
        before = session.view()
        if state == 'down':
            session.down()
        result = world.reload(bad)
        print(f'    reload() of the broken file (session {state}) -> {result}')
        if state == 'up':
            session.turn()
        else:
            session.up()
        ok &= report(f'B01 failed reload leaves the routes as they were (session {state})', session.view(), before)
        world.close()

    # it does not heal, and the watchdog tables of the live RIB take the routes of the rejected file as well
    bad = TWO % (
        static('10.0.0.0/24 next-hop 1.1.1.1', '10.0.5.0/24 next-hop 1.1.1.1 watchdog dog withdraw', '10.0.6.0/24 next-hop 1.1.1.1'),
        static('10.9.0.0/24 next-hop 1.1.1.1 bogus'),
    )
    world = World(old)
    session = world.session()
    session.up()
    before = session.view()
    print('    reload() of the broken file ->', world.reload(bad), ' then of the old, correct file ->', world.reload(old))
    session.turn()
    ok &= report('B01 failed reload, then a good reload of the OLD file: routes as they were', session.view(), before)
    session.peer.neighbor.rib.outgoing.announce_watchdog('dog')  # API: announce watchdog dog
    session.turn()
    ok &= report("B01 ... then 'announce watchdog dog' (a watchdog only the rejected file knew)", session.view(), before)
    world.close()
    return ok


def b02_rejected_file_changes_the_live_rib_settings() -> bool:
    """A reload which FAILS has already applied 'family' and 'adj-rib-out' of the rejected file to the live RIB
    (RIB.enable() at parse time): cached routes of a dropped family are deleted, 'adj-rib-out false' empties the
    Adj-RIB-Out (API routes included) and stops it from keeping anything from then on."""
    fam6 = '    family { ipv4 unicast; ipv6 unicast; }\n'
    fam4 = '    family { ipv4 unicast; }\n'
    routes = static('10.0.0.0/24 next-hop 1.1.1.1', '2001:db8::/32 next-hop 2001::1')
    good = NEIGHBOR % (fam6 + routes)
    broken_tail = '\nneighbor 127.0.0.9 { bogus; }\n'
    ok = True

    world = World(good)
    session = world.session()
    session.up()
    before = session.view()
    print('    reload() of a broken file dropping ipv6 unicast ->', world.reload(NEIGHBOR % (fam4 + static('10.0.0.0/24 next-hop 1.1.1.1')) + broken_tail))
    session.turn()
    session.down()
    session.up()
    ok &= report('B02a failed reload (family removed in the rejected file): table of the next session', session.view(), before)
    world.close()

    world = World(good)
    session = world.session()
    session.up()
    for route in world.reactor.api.api_route('announce route 10.9.9.0/24 next-hop 1.1.1.1'):
        world.configuration.announce_route(list(world.reactor._peers), route)
    session.turn()
    before = session.view()
    print('    reload() of a broken file saying adj-rib-out false ->', world.reload(NEIGHBOR % (fam6 + '    adj-rib-out false;\n' + routes) + broken_tail))
    session.turn()
    session.down()
    session.up()
    ok &= report('B02b failed reload (adj-rib-out false in the rejected file): table of the next session, API route included', session.view(), before)
    ok &= report('B02b live Adj-RIB-Out still keeps what it is given', session.peer.neighbor.rib.outgoing.cache, True)
    world.close()
    return ok


def b03_two_reloads_one_of_them_reestablishing() -> bool:
    """Two reloads before the peer has taken the first one over, one of them changing a session parameter
    (Peer.reestablish() overwrites / is not given the pending difference): the route the first reload removed is
    announced again on the new session."""

    def cfg(hold: int, *routes: str) -> str:
        return NEIGHBOR % (f'    hold-time {hold};\n' + static(*[f'{r} next-hop 1.1.1.1' for r in routes]))

    ok = True
    # (a) reload 1 changes hold-time and removes a route, reload 2 is the same file again
    for state in ('up', 'down'):
        world = World(cfg(180, '10.0.0.0/24', '10.0.1.0/24'))
        session = world.session()
        session.up()
        if state == 'down':
            session.down()
        print(f'    (a) session {state}: reload 1 ->', world.reload(cfg(90, '10.0.0.0/24')), ' reload 2 ->', world.reload(cfg(90, '10.0.0.0/24')))
        if state == 'up':
            session.down()  # the teardown asked for by reestablish()
        session.up()
        ok &= report(f'B03a hold-time changed + route removed, then the same file again (session {state})', session.view(), expected_view(session.peer.neighbor))
        world.close()
    # (b) reload 1 only removes a route (reconfigure, pending), reload 2 changes hold-time
    world = World(cfg(180, '10.0.0.0/24', '10.0.1.0/24'))
    session = world.session()
    session.up()
    print('    (b) reload 1 ->', world.reload(cfg(180, '10.0.0.0/24')), ' reload 2 ->', world.reload(cfg(90, '10.0.0.0/24')))
    session.down()
    session.up()
    ok &= report('B03b route removed, then hold-time changed before the peer loop turned', session.view(), expected_view(session.peer.neighbor))
    world.close()
    return ok


def b04_watchdog_held_route_announced_by_reload() -> bool:
    """A route ADDED by a reload with 'watchdog <name> withdraw' (held back until 'announce watchdog <name>') is
    announced at once; the same file read at start-up keeps it back."""
    old = NEIGHBOR % static('10.0.0.0/24 next-hop 1.1.1.1')
    new = NEIGHBOR % static('10.0.0.0/24 next-hop 1.1.1.1', '10.0.8.0/24 next-hop 1.1.1.1 watchdog dog withdraw')
    fresh = World(new)
    fresh_session = fresh.session()
    fresh_session.up()
    reference = fresh_session.view()
    fresh.close()
    ok = True
    for state in ('up', 'down'):
        world = World(old)
        session = world.session()
        session.up()
        if state == 'down':
            session.down()
        world.reload(new)
        if state == 'up':
            session.turn()
        else:
            session.up()
        ok &= report(f'B04 held back watchdog route after a reload == after a start with the same file (session {state})', session.view(), reference)
        world.close()
    return ok


def b05_attribute_change_invisible_in_text() -> bool:
    """The attribute index is the TEXT of the attributes. Two attribute sets which print alike and pack differently
    are one for the reload: the changed route is not announced again (target:1:1 as two-octet-AS specific
    0x0002... versus four-octet-AS specific 0x0202..., both printed 'target:1:1')."""
    pairs = [
        ('extended-community [ target:1:1 ]', 'extended-community [ target:1L:1 ]'),
        ('extended-community [ 0x0002000100000001 ]', 'extended-community [ 0x4002000100000001 ]'),
        ('extended-community [ 0x8006000000000000 ]', 'extended-community [ 0x8006123400000000 ]'),
    ]
    ok = True
    for old_attr, new_attr in pairs:
        for state in ('up', 'down'):
            world = World(NEIGHBOR % static(f'10.0.0.0/24 next-hop 1.1.1.1 {old_attr}'))
            session = world.session()
            session.up()
            if state == 'down':
                session.down()
            world.reload(NEIGHBOR % static(f'10.0.0.0/24 next-hop 1.1.1.1 {new_attr}'))
            if state == 'up':
                session.turn()
            else:
                session.up()
            ok &= report(
                f'B05 {old_attr} -> {new_attr} (session {state}): UPDATE bytes the peer holds == what the new file encodes to',
                wire_diff(session.wire, expected_wire(session.peer.neighbor)),
                [],
            )
            world.close()
    return ok


def b06_flip_flop_while_queued() -> bool:
    """The attributes of a route go A -> B -> A by two reloads while the first version is still queued (a passive
    neighbor which has not connected yet, or two reloads inside one turn of the peer loop): _update_rib() leaves
    the B version queued under its own attribute group, which is sent AFTER the group of A."""
    a = NEIGHBOR % ('    passive;\n' + static('10.0.0.0/24 next-hop 1.1.1.1 med 5'))
    b = NEIGHBOR % ('    passive;\n' + static('10.0.0.0/24 next-hop 1.1.1.1 med 7'))
    world = World(a)
    session = world.session()
    print('    reload A->B ->', world.reload(b), ' reload B->A ->', world.reload(a))
    session.up()
    print('    sent:', session.log)
    ok = report('B06 passive neighbor connects after med 5 -> 7 -> 5', session.view(), expected_view(session.peer.neighbor))
    world.close()

    world = World(a)
    session = world.session()
    session.up()
    world.reload(b)
    world.reload(a)
    world.reload(b)
    session.turn()
    print('    sent:', session.log)
    ok &= report('B06 established session, three reloads 5 -> 7 -> 5 -> 7 inside one turn of the peer loop', session.view(), expected_view(session.peer.neighbor))
    world.close()
    return ok


def b07_api_created_peer_removed_by_any_reload() -> bool:
    """A neighbor created through the API ('peer create ...') and the routes announced to it do not survive a
    successful reload, even of an unchanged file: Configuration._clear() drops it from configuration.neighbors and
    Reactor.reload() removes every peer which is not in the file (reactor._dynamic_peers is never looked at)."""
    from exabgp.reactor.api.command.peer import neighbor_create

    text = NEIGHBOR % static('10.0.0.0/24 next-hop 1.1.1.1')
    world = World(text)
    created = neighbor_create(
        world.reactor.api, world.reactor, 'svc', [],
        '127.0.0.7 local-address 127.0.0.1 local-as 65000 peer-as 65007 router-id 10.0.0.1', False,
    )  # fmt: skip
    key = [k for k in world.reactor._peers if '127.0.0.7' in k][0]
    session = world.session(key)
    session.up()
    for route in world.reactor.api.api_route('announce route 10.7.7.0/24 next-hop 1.1.1.1'):
        world.configuration.announce_route([key], route)
    session.turn()
    print('    peer created through the API:', created, ' holds', session.view())
    print('    reload() of the unchanged file ->', world.reload(text))
    peer = world.reactor._peers[key]
    state = {'in configuration.neighbors': key in world.configuration.neighbors, 'peer will restart': peer._restart, 'teardown': peer._teardown}
    ok = report('B07 API-created peer after a reload of an unchanged file', state, {'in configuration.neighbors': True, 'peer will restart': True, 'teardown': None})
    world.close()
    return ok


def b08_validation_failure_is_committed() -> bool:
    """Configuration.validate() finds the problem, sets the error ... and _reload() returns True: 'if check: return
    check / return True'. A file whose neighbor uses an API process which is not defined is committed and applied."""
    world = World(NEIGHBOR % static('10.0.0.0/24 next-hop 1.1.1.1'))
    session = world.session()
    session.up()
    before = session.view()
    result = world.reload(NEIGHBOR % ('    api { processes [ nothere ]; }\n' + static('10.0.7.0/24 next-hop 1.1.1.1')))
    session.turn()
    message = str(world.configuration.error).strip()
    print(f'    reload() -> {result}; configuration.error = {message!r}')
    refused = result is not True and session.view() == before
    accepted_clean = result is True and not message
    ok = report('B08 a file validate() objects to is either refused (nothing changes) or accepted without an error', refused or accepted_clean, True)
    world.close()
    return ok


def b09_template_inherited_routes_leak_between_neighbors() -> bool:
    """'inherit [ t1 t2 ]' with routes in both templates and none in the neighbor: Scope.transfer() makes the neighbor
    share the 'static' dictionary of t1 and then extends it with the routes of t2 -- template t1 is modified, and every
    LATER neighbor which inherits t1 alone is given the routes of t2 as well (depends on the order of the neighbors)."""
    template = """
template {
    neighbor t1 { static { route 10.1.0.0/24 next-hop 1.1.1.1; } }
    neighbor t2 { static { route 10.2.0.0/24 next-hop 1.1.1.1; } }
}
"""
    both = """
neighbor 127.0.0.2 {
    inherit [ t1 t2 ];
    router-id 10.0.0.1; local-address 127.0.0.1; local-as 65000; peer-as 65001;
}
"""
    one = """
neighbor 127.0.0.3 {
    inherit t1;
    router-id 10.0.0.1; local-address 127.0.0.1; local-as 65000; peer-as 65001;
}
"""
    ok = True
    # reached by a reload: the neighbor which inherits both templates is added in front of the other one
    world = World(template + one)
    key = [k for k in world.reactor._peers if '127.0.0.3' in k][0]
    session = world.session(key)
    session.up()
    before = session.view()
    print('    reload() adding, in front, a neighbor which inherits [ t1 t2 ] ->', world.reload(template + both + one))
    session.turn()
    ok &= report('B09 neighbor 127.0.0.3 (inherit t1, untouched by the reload) holds the routes of t1 only', session.view(), before)
    world.close()
    return ok


def b10_range_peer_removed_by_any_reload() -> bool:
    """A session accepted from an address range ('neighbor 127.0.0.0/24 { passive; ... }') gets a peer registered
    under its own name (Listener.new_connections(): copy of the range neighbor, ephemeral). That name is never in
    configuration.neighbors, so Reactor.reload() removes the peer -- the reload of an unchanged file tears every such
    session down. (The registration is done here the way the listener does it; no socket in this probe.)"""
    import copy

    from exabgp.protocol.ip import IP
    from exabgp.reactor.peer.peer import Peer

    text = """
neighbor 127.0.0.0/24 {
    passive;
    router-id 10.0.0.1;
    local-address 127.0.0.1;
    local-as 65000;
    peer-as 65001;
    static { route 10.0.0.0/24 next-hop 1.1.1.1; }
}
"""
    world = World(text)
    ranged = list(world.configuration.neighbors.values())[0]
    # --- what Listener.new_connections() does for a connection from 127.0.0.77
    new_neighbor = copy.copy(ranged)
    new_neighbor.session = copy.copy(ranged.session)
    new_neighbor.range_size = 1
    new_neighbor.ephemeral = True
    new_neighbor.session.peer_address = IP.from_string('127.0.0.77')
    peer = Peer(new_neighbor, world.reactor)
    world.reactor.register_peer(new_neighbor.name(), peer)
    # ---
    session = world.session(new_neighbor.name())
    session.up()
    print('    ephemeral peer holds', session.view())
    print('    reload() of the unchanged file ->', world.reload(text))
    state = {'peer will restart': peer._restart, 'teardown': peer._teardown}
    ok = report('B10 peer of a range neighbor after the reload of an unchanged file', state, {'peer will restart': True, 'teardown': None})
    world.close()
    return ok


def b11_restart_reloads_the_file_and_keeps_the_old_neighbors() -> bool:
    """Reactor.restart() (SIGALRM, API 'restart') calls configuration.reload() and then reestablish() WITHOUT the new
    neighbor for every peer: the configuration holds the new neighbors, the peers keep the old ones. Routes removed
    from the file are given to the new session again, the new ones too (parse side effect on the shared RIB), and a
    neighbor added to the file gets no peer."""

    def cfg(*routes: str, extra: str = '') -> str:
        return NEIGHBOR % static(*[f'{r} next-hop 1.1.1.1' for r in routes]) + extra

    world = World(cfg('10.0.0.0/24', '10.0.1.0/24'))
    session = world.session()
    session.up()
    world.write(cfg('10.0.0.0/24', '10.0.2.0/24', extra=NEIGHBOR.replace('127.0.0.2', '127.0.0.4') % ''))
    world.reactor.restart()
    session.down()  # teardown 3 asked by reestablish()
    session.up()
    configured = [n for k, n in world.configuration.neighbors.items() if '127.0.0.2' in k][0]
    ok = report('B11 table of the session after restart == routes of the file which restart loaded', session.view(), expected_view(configured))
    ok &= report('B11 every neighbor of the loaded file has a peer', sorted(world.reactor._peers), sorted(world.configuration.neighbors))
    world.close()
    return ok


PROBES = [
    b01_rejected_file_reaches_the_peers,
    b02_rejected_file_changes_the_live_rib_settings,
    b03_two_reloads_one_of_them_reestablishing,
    b04_watchdog_held_route_announced_by_reload,
    b05_attribute_change_invisible_in_text,
    b06_flip_flop_while_queued,
    b07_api_created_peer_removed_by_any_reload,
    b08_validation_failure_is_committed,
    b09_template_inherited_routes_leak_between_neighbors,
    b10_range_peer_removed_by_any_reload,
    b11_restart_reloads_the_file_and_keeps_the_old_neighbors,
]

if __name__ == '__main__':
    failed = []
    for probe in PROBES:
        print(f'== {probe.__name__}')
        try:
            if not probe():
                failed.append(probe.__name__)
        except Exception:
            traceback.print_exc()
            failed.append(probe.__name__ + ' (exception)')
    print()
    print(f'{len(failed)} of {len(PROBES)} probes show a violation:', ', '.join(failed) if failed else 'none')
    sys.exit(1 if failed else 0)
