"""Seed 1 demo: a reload which changes only the LABEL of a labelled route / only the NEXT HOP of a vpls endpoint
(what is not part of the attribute index), followed later by a session loss.

Expected: the new values are announced by the reload AND are what every later session is given (the routes of the new
configuration, re-announced with the new values, whether the session is up or down).
Run: cd <tree> && PYTHONPATH=<tree>/src /venv/bin/python _out/1/demo.py
"""
import os
import sys

sys.path.insert(0, os.path.join(os.path.dirname(os.path.abspath(__file__)), '..'))
from harness import World, NEIGHBOR, expected_view, expected_wire, report, wire_diff  # noqa: E402

FAMILY = '    family { ipv4 unicast; ipv4 nlri-mpls; ipv4 mpls-vpn; l2vpn vpls; }\n'
BODY = """    static {
        route 10.0.0.0/24 next-hop 1.1.1.1;
        route 10.1.0.0/24 next-hop 1.1.1.1 label %d;
        route 10.2.0.0/24 next-hop 1.1.1.1 rd 65000:1 label %d;
    }
    l2vpn { vpls site5 { endpoint 5; base 10702; offset 1; size 8; rd 192.168.201.1:123; next-hop %s; } }
"""
OLD = NEIGHBOR % (FAMILY + BODY % (100, 300, '192.168.201.1'))
NEW = NEIGHBOR % (FAMILY + BODY % (200, 400, '192.168.201.2'))

ok = True

world = World(OLD)
session = world.session()
session.up()
print('reload() ->', world.reload(NEW))
session.turn()
ok &= report('1. session up during the reload: peer table right after it', session.view(), expected_view(session.peer.neighbor))

session.down()
session.up()
ok &= report('2. the session is lost and comes back: peer table of the new session', session.view(), expected_view(session.peer.neighbor))
ok &= report('   same, as UPDATE bytes', wire_diff(session.wire, expected_wire(session.peer.neighbor)), [])
world.close()

world = World(OLD)
session = world.session()
session.up()
session.down()
print('reload() with the session down ->', world.reload(NEW))
session.up()
ok &= report('3. session down during the reload: peer table of the next session', session.view(), expected_view(session.peer.neighbor))
world.close()

sys.exit(0 if ok else 1)
