"""Seed 3 demo: ONE reload which both changes a session parameter of the neighbor (hold-time: the peer is
re-established, Reactor.reload() takes the 'modified peer' branch) and removes a route from it.

Expected: the new session is given exactly the routes of the new configuration (plus the API routes).
Run: cd <tree> && PYTHONPATH=<tree>/src /venv/bin/python _out/3/demo.py
"""
import os
import sys

sys.path.insert(0, os.path.join(os.path.dirname(os.path.abspath(__file__)), '..'))
from harness import World, NEIGHBOR, expected_view, report  # noqa: E402


def cfg(hold: int, *routes: str) -> str:
    return NEIGHBOR % (f'    hold-time {hold};\n    static {{ ' + ' '.join(f'route {r} next-hop 1.1.1.1;' for r in routes) + ' }')


ok = True

# the two halves alone are fine with and without the change
world = World(cfg(180, '10.0.0.0/24', '10.0.1.0/24'))
session = world.session()
session.up()
world.reload(cfg(180, '10.0.0.0/24'))
session.turn()
ok &= report('1. route removed, neighbor unchanged (reconfigure)', session.view(), expected_view(session.peer.neighbor))
world.reload(cfg(90, '10.0.0.0/24'))
session.down()
session.up()
ok &= report('2. hold-time changed, routes unchanged (reestablish)', session.view(), expected_view(session.peer.neighbor))
world.close()

for state in ('up', 'down'):
    world = World(cfg(180, '10.0.0.0/24', '10.0.1.0/24'))
    session = world.session()
    session.up()
    api = world.reactor.api.api_route('announce route 10.9.9.0/24 next-hop 1.1.1.1')
    for route in api:
        world.configuration.announce_route(list(world.reactor._peers), route)
    session.turn()
    if state == 'down':
        session.down()
    print(f'session {state}: reload (hold-time 180 -> 90, 10.0.1.0/24 removed) ->', world.reload(cfg(90, '10.0.0.0/24')))
    peer = session.peer
    print(f'    peer asked to tear the session down: teardown={peer._teardown}')
    if state == 'up':
        session.down()  # Peer._main() leaves its loop on _teardown, Notify(6,3), Peer._reset()
    session.up()
    ok &= report(
        f'3. hold-time changed AND route removed by one reload (session {state}): table of the new session',
        session.view(),
        expected_view(session.peer.neighbor, api),
    )
    world.close()

sys.exit(0 if ok else 1)
