"""C01 baseline probe: inputs for which the UNCHANGED tree already breaks
"sent UPDATEs say exactly what the operator asked for".

Run:  cd <tree> && PYTHONPATH=<tree>/src /venv/bin/python _out/baseline_probe.py
Exit 1 while at least one of the problems is still there, 0 when none is.

Every check drives the real code (text parser -> Route -> resolve_self -> outgoing RIB / UpdateCollection.messages,
or the `exabgp encode` command) and reads the bytes with a small decoder written from the RFCs (no exabgp code).
"""
import os
import struct
import subprocess
import sys
import ipaddress

from exabgp.bgp.message.open.asn import ASN
from exabgp.bgp.message.open.routerid import RouterID
from exabgp.bgp.message.update.collection import RoutedNLRI, UpdateCollection
from exabgp.bgp.neighbor.settings import NeighborSettings, SessionSettings
from exabgp.configuration.check import _negotiated
from exabgp.configuration.configuration import Configuration
from exabgp.configuration.settings import ConfigurationSettings
from exabgp.configuration.setup import create_minimal_configuration, parse_family
from exabgp.logger import log
from exabgp.protocol.ip import IP

log.silence()

# ------------------------------------------------------------------ independent decoder


def _ip(raw):
    raw = bytes(raw)
    if len(raw) == 4:
        return str(ipaddress.IPv4Address(raw))
    if len(raw) == 16:
        return str(ipaddress.IPv6Address(raw))
    return 'raw:' + raw.hex()


def nlris(afi, safi, data, addpath):
    out, data = [], bytes(data)
    width = 4 if afi == 1 else 16
    while data:
        entry = {}
        if addpath:
            entry['path'] = struct.unpack('!L', data[:4])[0]
            data = data[4:]
        bits, data = data[0], data[1:]
        if safi in (4, 128):
            entry['labels'] = []
            while True:
                value = int.from_bytes(data[:3], 'big')
                data, bits = data[3:], bits - 24
                entry['labels'].append(value >> 4)
                if value & 1:
                    break
        if safi == 128:
            entry['rd'] = data[:8].hex()
            data, bits = data[8:], bits - 64
        size = (bits + 7) // 8
        if bits > width * 8 or len(data) < size:
            raise ValueError('prefix of %d bits does not fit AFI %d' % (bits, afi))
        entry['prefix'] = '%s/%d' % (_ip(data[:size] + bytes(width - size)), bits)
        data = data[size:]
        out.append(entry)
    return out


def decode(message, addpath=lambda afi, safi: False, asn4=True):
    body = bytes(message)[19:]
    wl = struct.unpack('!H', body[:2])[0]
    al = struct.unpack('!H', body[2 + wl : 4 + wl])[0]
    data = body[4 + wl : 4 + wl + al]
    result = {'nlri': nlris(1, 1, body[4 + wl + al :], addpath(1, 1)), 'attrs': {}, 'reach': None}
    while data:
        flag, code = data[0], data[1]
        if flag & 0x10:
            length = struct.unpack('!H', data[2:4])[0]
            value, data = data[4 : 4 + length], data[4 + length :]
        else:
            length = data[2]
            value, data = data[3 : 3 + length], data[3 + length :]
        result['attrs'][code] = value
        if code == 14:
            afi, safi, nhl = struct.unpack('!HBB', value[:4])
            result['reach'] = {'afi': afi, 'safi': safi, 'nh': value[4 : 4 + nhl], 'raw': value[5 + nhl :]}
    return result


def as_path(value, width=4):
    out = []
    while value:
        kind, count = value[0], value[1]
        body = value[2 : 2 + count * width]
        out.append((kind, [int.from_bytes(body[i : i + width], 'big') for i in range(0, len(body), width)]))
        value = value[2 + count * width :]
    return out


# ------------------------------------------------------------------ harness


def session(local='127.0.0.1', peer='127.0.0.1', local_as=65533, peer_as=65533, families='all', router_id=None, nexthop=None):
    if router_id is None and nexthop is None:
        cfg = create_minimal_configuration(peer_address=peer, local_address=local, local_as=local_as, peer_as=peer_as, families=families)
    else:
        s = SessionSettings()
        s.peer_address = IP.from_string(peer)
        s.local_address = IP.from_string(local)
        s.local_as, s.peer_as = ASN(local_as), ASN(peer_as)
        if router_id:
            s.router_id = RouterID(router_id)
        ns = NeighborSettings()
        ns.session = s
        ns.families = parse_family(families)
        if nexthop:
            from exabgp.bgp.message.open.capability.capabilities import Capabilities
            from exabgp.bgp.neighbor.capability import NeighborCapability
            from exabgp.util.enumeration import TriState

            ns.nexthops = list(Capabilities._NEXTHOP)
            cap = NeighborCapability()
            cap.nexthop = TriState.TRUE
            ns.capability = cap
        cs = ConfigurationSettings()
        cs.neighbors = [ns]
        cfg = Configuration.from_settings(cs)
    neighbor = list(cfg.neighbors.values())[0]
    neighbor.rib.outgoing.clear()
    _, negotiated = _negotiated(neighbor)
    return cfg, neighbor, negotiated


def send(cfg, neighbor, negotiated, routes):
    out = []
    for route in routes:
        route = neighbor.resolve_self(route)
        out.extend(UpdateCollection([RoutedNLRI(route.nlri, route.nexthop)], [], route.attributes).messages(negotiated))
    return out


def encode(text, **kw):
    cfg, neighbor, negotiated = session(**kw)
    routes = cfg.parse_route_text(text)
    assert routes, 'refused: %s (%s)' % (text, cfg.error)
    return send(cfg, neighbor, negotiated, routes), negotiated


def encode_api_family(section, line, **kw):
    """the API form `announce ipv4 unicast ...`: Configuration.partial('ipv4', 'unicast ...') as API.api_announce_v4 does"""
    cfg, neighbor, negotiated = session(**kw)
    saved = cfg.neighbors.copy()
    cfg.static.clear()
    ok = cfg.partial(section, line, 'announce')
    cfg.neighbors = saved
    assert ok, 'refused: %s %s (%s)' % (section, line, cfg.error)
    cfg.scope.to_context()
    return send(cfg, neighbor, negotiated, cfg.scope.pop_routes())


PROBLEMS = []


def check(name):
    def wrap(function):
        try:
            problem = function()
        except Exception as exc:  # a probe which can not run is not evidence either way
            print('[%s] probe could not run: %r\n' % (name, exc))
            return function
        print('[%s] %s\n' % (name, 'PROBLEM: ' + problem if problem else 'not reproduced'))
        if problem:
            PROBLEMS.append(name)
        return function

    return wrap


# ------------------------------------------------------------------ observations


@check('B1 encode -i drops the path identifier')
def b1():
    env = dict(os.environ)
    cmd = [sys.executable, '-m', 'exabgp', 'encode', '-i', 'route 10.0.0.0/24 next-hop 1.2.3.4 path-information 1.2.3.4']
    hexa = subprocess.run(cmd, env=env, capture_output=True, text=True, timeout=120).stdout.strip().splitlines()[-1]
    body = bytes.fromhex(hexa)[19:]
    al = struct.unpack('!H', body[2:4])[0]
    nlri = body[4 + al :]
    print('   exabgp encode -i "route 10.0.0.0/24 next-hop 1.2.3.4 path-information 1.2.3.4"')
    print('   NLRI field: %s   expected with ADD-PATH: 01020304180a0000' % nlri.hex())
    if nlri.hex() != '01020304180a0000':
        return 'the -i (add-path) option of `exabgp encode` negotiates nothing: the path identifier 1.2.3.4 is not in the UPDATE'


@check('B2 "as-path [ ]" and no as-path share one attribute index in the outgoing RIB')
def b2():
    found = []
    for order in (('route 10.0.1.0/24 next-hop 1.2.3.4', 'route 10.0.0.0/24 next-hop 1.2.3.4 as-path [ ]'),
                  ('route 10.0.0.0/24 next-hop 1.2.3.4 as-path [ ]', 'route 10.0.1.0/24 next-hop 1.2.3.4')):
        for grouped in (True, False):
            cfg, neighbor, negotiated = session(local_as=65533, peer_as=65000, families='ipv4 unicast')
            for text in order:
                for route in cfg.parse_route_text(text):
                    neighbor.rib.outgoing.add_to_rib(neighbor.resolve_self(route))
            sent = {}
            for update in neighbor.rib.outgoing.updates(grouped):
                for message in update.messages(negotiated):
                    d = decode(message)
                    for n in d['nlri']:
                        sent[n['prefix']] = as_path(d['attrs'][2])
            want = {'10.0.1.0/24': [(2, [65533])], '10.0.0.0/24': []}
            print('   eBGP 65533->65000 grouped=%s order=%s\n      sent AS_PATH %s\n      expected     %s' % (grouped, [t.split()[1] for t in order], sent, want))
            if sent != want:
                found.append(sent)
    if found:
        return 'the route without as-path leaves for an eBGP peer with an EMPTY AS_PATH (or the explicit empty path gets the local AS): the RIB keys attributes by their text, and an empty as-path prints as nothing'


@check('B3 next-hop self of an IPv4 route on an IPv6 session is the router-id')
def b3():
    cfg, neighbor, negotiated = session(local='2001:db8::1', peer='2001:db8::2', router_id='9.9.9.9', nexthop=True)
    (message,) = send(cfg, neighbor, negotiated, cfg.parse_route_text('route 10.0.0.0/24 next-hop self'))
    d = decode(message)
    got = _ip(d['attrs'][3]) if 3 in d['attrs'] else (_ip(d['reach']['nh']) if d['reach'] else None)
    print('   session 2001:db8::1 -> 2001:db8::2, router-id 9.9.9.9, extended next hop negotiated: %s' % negotiated.nexthop[:1])
    print('   route 10.0.0.0/24 next-hop self -> next hop %s   expected 2001:db8::1 (the local address of the session)' % got)
    if got != '2001:db8::1':
        return 'Session.ip_self() answers the router-id for an IPv4 route on an IPv6 session: 9.9.9.9 is not an address of the session'


@check('B4 IPv6 next hop for IPv4 NLRI without the RFC 8950 capability')
def b4():
    msgs, negotiated = encode('route 10.0.0.0/24 next-hop 2001:db8::1', families='ipv4 unicast')
    print('   session with ipv4 unicast only, negotiated extended next hop: %s' % negotiated.nexthop)
    for message in msgs:
        d = decode(message)
        print('   route 10.0.0.0/24 next-hop 2001:db8::1 -> MP_REACH afi %d safi %d next hop %s' % (d['reach']['afi'], d['reach']['safi'], _ip(d['reach']['nh'])))
    if msgs and not negotiated.nexthop:
        return 'RFC 8950 section 4: an IPv6 next hop for IPv4 NLRI MUST NOT be sent unless the capability was negotiated; nothing looks at negotiated.nexthop when packing'


@check('B5 IPv4 next hop for IPv6 NLRI goes out as a 4 / 12 byte next hop')
def b5():
    bad = []
    for text, legal in (('route 2001:db8::/32 next-hop 1.2.3.4', (16, 32)),
                        ('route 2001:db8::/32 next-hop 1.2.3.4 label 100', (16, 32)),
                        ('route 2001:db8::/32 next-hop 1.2.3.4 rd 65000:1 label 100', (24, 48))):
        msgs, _ = encode(text)
        d = decode(msgs[0])
        size = len(d['reach']['nh'])
        print('   %-62s -> MP_REACH afi %d safi %d next hop of %d bytes (%s), NEXT_HOP attribute %s   legal sizes %s' % (
            text, d['reach']['afi'], d['reach']['safi'], size, d['reach']['nh'].hex(), 'present' if 3 in d['attrs'] else 'absent', legal))
        if size not in legal:
            bad.append(text)
    if bad:
        return 'RFC 2545 / 4798 / 4659 give AFI 2 a 16/32 (VPN: 24/48) byte next hop, an IPv4 one has to be IPv4-mapped (the code for it in static/parser.next_hop is never reached: afi is not passed) or refused'


@check('B6 "attributes ... nlri" with prefixes of two families')
def b6():
    bad = []
    for text, wanted in (('attributes next-hop 1.2.3.4 nlri 10.0.0.0/24 2001:db8::/32', {(1, '10.0.0.0/24'), (2, '2001:db8::/32')}),
                         ('attributes next-hop 2001:db8::1 nlri 2001:db8::/32 10.0.0.0/24', {(2, '2001:db8::/32'), (1, '10.0.0.0/24')})):
        msgs, _ = encode(text)
        got = set()
        for message in msgs:
            d = decode(message)
            got |= {(1, n['prefix']) for n in d['nlri']}
            if d['reach']:
                try:
                    got |= {(d['reach']['afi'], n['prefix']) for n in nlris(d['reach']['afi'], d['reach']['safi'], d['reach']['raw'], False)}
                except ValueError as exc:
                    got.add((d['reach']['afi'], 'undecodable: %s' % exc))
        print('   %s\n      sent (afi, prefix) %s\n      expected           %s' % (text, sorted(got), sorted(wanted)))
        if got != wanted:
            bad.append(text)
    if bad:
        return 'static.attributes() takes AFI and SAFI from the LAST prefix of the line and packs every prefix under it: 10.0.0.0/24 is announced as the IPv6 prefix a00::/24 (or is refused: it is not)'


@check('B7 "announce ipv4 unicast <ipv6 prefix>" / "announce ipv6 unicast <ipv4 prefix>"')
def b7():
    bad = []
    for section, line, wanted in (('ipv4', 'unicast 2001:db8::/32 next-hop 2001:db8::1', 'refused, or (2, 2001:db8::/32)'),
                                  ('ipv6', 'unicast 10.0.0.0/24 next-hop 1.2.3.4', 'refused, or (1, 10.0.0.0/24)')):
        try:
            msgs = encode_api_family(section, line)
        except AssertionError as exc:
            print('   announce %s %s -> %s' % (section, line, exc))
            continue
        for message in msgs:
            d = decode(message)
            reach = d['reach']
            try:
                got = [(reach['afi'], n['prefix']) for n in nlris(reach['afi'], reach['safi'], reach['raw'], False)] if reach else [(1, n['prefix']) for n in d['nlri']]
            except ValueError as exc:
                got = 'undecodable: %s' % exc
            print('   announce %s %s\n      sent (afi, prefix) %s   expected %s' % (section, line, got, wanted))
            bad.append(line)
    if bad:
        return 'the family comes from the command and the bytes from the prefix: 2001:db8::/32 is announced as the IPv4 host 32.1.13.184/32, 10.0.0.0/24 as the IPv6 prefix a00::/24'


@check('B8 "route 224.0.0.0/24" is sent as SAFI multicast, or not at all')
def b8():
    msgs, _ = encode('route 224.0.0.0/24 next-hop 1.2.3.4', families='ipv4 unicast ipv4 multicast')
    d = decode(msgs[0])
    where = 'MP_REACH afi %d safi %d' % (d['reach']['afi'], d['reach']['safi']) if d['reach'] else 'NLRI field (ipv4 unicast)'
    msgs_unicast, _ = encode('route 224.0.0.0/24 next-hop 1.2.3.4', families='ipv4 unicast')
    api = encode_api_family('ipv4', 'unicast 224.0.0.0/24 next-hop 1.2.3.4', families='ipv4 unicast')
    print('   route 224.0.0.0/24 next-hop 1.2.3.4, families ipv4 unicast+multicast -> %s' % where)
    print('   same route, families ipv4 unicast only -> %d message(s)' % len(msgs_unicast))
    print('   announce ipv4 unicast 224.0.0.0/24 next-hop 1.2.3.4, unicast only -> %d message(s), NLRI field %s' % (len(api), decode(api[0])['nlri'] if api else None))
    if d['reach'] or not msgs_unicast:
        return 'IP.tosafi() turns a prefix in 224.0.0.0/4 written with the unicast keyword `route` into SAFI 2: on a unicast only session the route is silently never sent, while the per-family API form sends it as unicast'


@check('B9 link-local next hop capability + VPN-IPv6: next hop of 40 bytes')
def b9():
    cfg, neighbor, negotiated = session()
    negotiated.linklocal_nexthop = True  # both sides announced the capability
    neighbor.session.local_link_local = IP.from_string('fe80::1')
    (message,) = send(cfg, neighbor, negotiated, cfg.parse_route_text('route 2001:db8::/32 next-hop 2001:db8::1 rd 65000:1 label 100'))
    nh = decode(message)['reach']['nh']
    print('   route 2001:db8::/32 next-hop 2001:db8::1 rd 65000:1 label 100, link-local fe80::1\n      next hop (%d bytes) %s\n      expected 24 bytes, or 48: RD 0 + global + RD 0 + link-local (RFC 4659 3.2.1.1)' % (len(nh), nh.hex()))
    if len(nh) not in (24, 48):
        return 'MPNLRICollection._encode_nexthop() appends the link-local address without its own zero route distinguisher'


@check('B10 a repeated next-hop keyword: NEXT_HOP keeps the first, MP_REACH_NLRI takes the last')
def b10():
    msgs, _ = encode('route 10.0.0.0/24 label 100 next-hop 1.2.3.4 next-hop 5.6.7.8')
    d = decode(msgs[0])
    attr, reach = _ip(d['attrs'][3]), _ip(d['reach']['nh'])
    plain = decode(encode('route 10.0.0.0/24 next-hop 1.2.3.4 next-hop 5.6.7.8')[0][0])
    print('   route 10.0.0.0/24 label 100 next-hop 1.2.3.4 next-hop 5.6.7.8 -> NEXT_HOP %s, MP_REACH next hop %s' % (attr, reach))
    print('   route 10.0.0.0/24 next-hop 1.2.3.4 next-hop 5.6.7.8           -> NEXT_HOP %s (so: first wins for unicast, last wins for labelled)' % _ip(plain['attrs'][3]))
    if attr != reach:
        return 'one UPDATE carries two different next hops for one route; which of the two keywords wins depends on the family'


print('%d of the baseline observations reproduced: %s' % (len(PROBLEMS), ', '.join(p.split()[0] for p in PROBLEMS)))
sys.exit(1 if PROBLEMS else 0)
