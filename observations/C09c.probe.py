#!/usr/bin/env python3
"""C09 baseline probe: inputs for which the UNCHANGED tree already violates
"generated UPDATEs fit the negotiated size and lose nothing".

Run: cd <tree> && PYTHONPATH=<tree>/src /venv/bin/python _out/baseline_probe.py
exit 1 while at least one of the problems exists, exit 0 when none is left.
Every check drives the real UpdateCollection.messages() and decodes its output with the real
UpdateCollection.unpack_message() / Update.unpack_message().
"""
import sys
from unittest.mock import Mock

from exabgp.protocol.family import AFI, SAFI
from exabgp.protocol.ip import IP, IPv6
from exabgp.bgp.message.direction import Direction
from exabgp.bgp.message.open import Open
from exabgp.bgp.message.open.asn import ASN
from exabgp.bgp.message.open.version import Version
from exabgp.bgp.message.open.holdtime import HoldTime
from exabgp.bgp.message.open.routerid import RouterID
from exabgp.bgp.message.open.capability.capability import Capability
from exabgp.bgp.message.open.capability.capabilities import Capabilities
from exabgp.bgp.message.open.capability.mp import MultiProtocol
from exabgp.bgp.message.open.capability.negotiated import Negotiated
from exabgp.bgp.message.update import UpdateCollection, Update
from exabgp.bgp.message.update.eor import EOR
from exabgp.bgp.message.update.collection import RoutedNLRI
from exabgp.bgp.message.update.attribute import AttributeCollection, Attribute
from exabgp.bgp.message.update.attribute.origin import Origin
from exabgp.bgp.message.update.attribute.aspath import AS2Path, SEQUENCE
from exabgp.bgp.message.update.attribute.nexthop import NextHop
from exabgp.bgp.message.update.nlri.inet import INET
from exabgp.bgp.message.update.nlri.cidr import CIDR
from exabgp.bgp.message.update.nlri.empty import Empty

FAMILIES = [(AFI.ipv4, SAFI.unicast), (AFI.ipv6, SAFI.unicast)]


def negotiated(direction=Direction.OUT, families=FAMILIES, msg_size=4096):
    neighbor = Mock()
    neighbor.capability.aigp.is_enabled = Mock(return_value=False)
    neighbor.session.local_address = None
    n = Negotiated.make_negotiated(neighbor, direction)
    n.families = list(families)
    n.msg_size = msg_size
    n.local_as = ASN(65000)
    n.peer_as = ASN(65001)
    n.asn4 = True
    n.aigp = False
    return n


def inet(prefix, mask, afi=AFI.ipv4, safi=SAFI.unicast):
    packed = IPv6.from_string(prefix).pack_ip() if afi == AFI.ipv6 else IP.pton(prefix)
    return INET.from_cidr(CIDR.create_cidr(packed, mask), afi, safi)


def attributes(nexthop='192.0.2.1', path_length=0):
    """ORIGIN, AS_PATH of `path_length` ASNs (4 bytes each on an ASN4 session) and NEXT_HOP"""
    a = AttributeCollection()
    a[Attribute.CODE.ORIGIN] = Origin.from_int(Origin.IGP)
    segments = []
    left = path_length
    while left > 0:
        take = min(255, left)
        segments.append(SEQUENCE([ASN(65001)] * take))
        left -= take
    a[Attribute.CODE.AS_PATH] = AS2Path.make_aspath(segments)
    if nexthop:
        a[Attribute.CODE.NEXT_HOP] = NextHop.from_string(nexthop)
    return a


def decode(messages, inn):
    announced, withdrawn, empty = [], [], []
    for message in messages:
        parsed = UpdateCollection.unpack_message(bytes(message[19:]), inn)
        announced += [(str(r.nlri), str(r.nexthop)) for r in parsed.announces]
        withdrawn += [str(n) for n in parsed.withdraws]
        if not parsed.announces and not parsed.withdraws:
            empty.append(len(message))
    return sorted(announced), sorted(withdrawn), empty


PROBLEMS = []


def report(tag, bad, observed, expected):
    print('[%s] %s' % ('PROBLEM' if bad else 'ok', tag))
    print('      observed: %s' % observed)
    print('      expected: %s' % expected)
    if bad:
        PROBLEMS.append(tag)


def b1_eor_for_skipped_mp_withdraw():
    """first pass of a session (include_withdraw=False) with a pending IPv6 withdraw"""
    out = negotiated()
    collection = UpdateCollection([], [inet('2001:db8:1::', 48, AFI.ipv6)], attributes())
    messages = list(collection.messages(out, include_withdraw=False))
    what = [type(Update.unpack_message(bytes(m[19:]), negotiated(Direction.IN))).__name__ for m in messages]
    eors = [
        str(Update.unpack_message(bytes(m[19:]), negotiated(Direction.IN)))
        for m in messages
        if isinstance(Update.unpack_message(bytes(m[19:]), negotiated(Direction.IN)), EOR)
    ]
    report(
        'B1 include_withdraw=False + only an IPv6 unicast withdraw: an IPv4-unicast End-of-RIB is generated',
        bool(messages),
        '%d message(s) payload %s decoded as %s %s' % (len(messages), [bytes(m[19:]).hex() for m in messages], what, eors),
        'no message at all (the withdraw is skipped, nothing else was asked for)',
    )

    # the same through the outgoing RIB, the way reactor/protocol.py new_update_generator(include_withdraw=False)
    # drives it on the first pass of an established session (reactor/peer/peer.py sets include_withdraw = False)
    from exabgp.rib.outgoing import OutgoingRIB
    from exabgp.rib.route import Route

    rib = OutgoingRIB(True, set(FAMILIES))
    route = Route(inet('2001:db8:1::', 48, AFI.ipv6), attributes(None), nexthop=IP.from_string('2001:db8::1'))
    rib.add_to_rib(route)
    for update in rib.updates(False):
        list(update.messages(out, True))
    rib.del_from_rib(route)
    payloads = []
    for update in rib.updates(False):
        payloads += [bytes(m[19:]).hex() for m in update.messages(out, False)]
    report(
        'B1 (through OutgoingRIB) route announced, then withdrawn, updates() drained with include_withdraw=False',
        bool(payloads),
        'payloads %s' % payloads,
        'no message',
    )


def b2_attributes_only_update_when_mp_route_does_not_fit():
    out, inn = negotiated(), negotiated(Direction.IN)
    a = attributes(path_length=1005)
    room = out.msg_size - 23 - len(a.pack_attribute(out, True))
    route = RoutedNLRI(inet('2001:db8:1::', 48, AFI.ipv6), IP.from_string('2001:db8::1'))
    messages = list(UpdateCollection([route], [], a).messages(out))
    announced, withdrawn, empty = decode(messages, inn)
    report(
        'B2 attributes leave %d bytes, an IPv6 route needs 31: an UPDATE with attributes and no route is sent' % room,
        bool(empty),
        '%d message(s) of %s bytes, announced %s, messages carrying no route at all: %s'
        % (len(messages), [len(m) for m in messages], announced, empty),
        'no message for that route (the IPv4 code path of the same function returns without yielding)',
    )


def b3_ipv4_next_hop_is_not_the_route_next_hop():
    out, inn = negotiated(), negotiated(Direction.IN)
    routes = [
        RoutedNLRI(inet('10.0.0.0', 24), IP.from_string('192.0.2.1')),
        RoutedNLRI(inet('10.0.1.0', 24), IP.from_string('192.0.2.99')),
    ]
    expected = sorted((str(r.nlri), str(r.nexthop)) for r in routes)
    announced, withdrawn, _ = decode(list(UpdateCollection(routes, [], attributes('192.0.2.1')).messages(out)), inn)
    report(
        'B3a two IPv4 unicast routes with different next hops in one collection',
        announced != expected,
        'announced %s' % announced,
        'announced %s (the IPv6 routes of the same call are grouped per next hop)' % expected,
    )
    announced, withdrawn, _ = decode(list(UpdateCollection(routes[:1], [], attributes(None)).messages(out)), inn)
    report(
        'B3b IPv4 unicast route with a next hop, attribute set without NEXT_HOP',
        announced != expected[:1],
        'announced %s withdrawn %s (UPDATE has NLRI and no NEXT_HOP: treat-as-withdraw for the receiver)' % (announced, withdrawn),
        'announced %s' % expected[:1],
    )


def b4_withdrawal_lost_because_of_attributes_it_does_not_carry():
    out, inn = negotiated(), negotiated(Direction.IN)
    a = attributes(path_length=1012)
    room = out.msg_size - 23 - len(a.pack_attribute(out, True))
    routes = [RoutedNLRI(inet('10.0.0.0', 8), IP.from_string('192.0.2.1')), RoutedNLRI(inet('10.0.1.0', 24), IP.from_string('192.0.2.1'))]
    withdraws = [inet('11.0.0.0', 8)]
    messages = list(UpdateCollection(routes, withdraws, a).messages(out))
    announced, withdrawn, _ = decode(messages, inn)
    report(
        'B4a room for NLRI is %d bytes: 10.0.0.0/8 is sent, 10.0.1.0/24 does not fit, and the withdrawal of 11.0.0.0/8 is lost with it' % room,
        withdrawn != ['11.0.0.0/8'],
        'announced %s withdrawn %s' % (announced, withdrawn),
        "withdrawn ['11.0.0.0/8'] (a withdraw-only UPDATE carries no attributes: it is 25 bytes long)",
    )
    messages = list(UpdateCollection([], withdraws, attributes(path_length=1100)).messages(out))
    announced, withdrawn, _ = decode(messages, inn)
    report(
        'B4b only an IPv4 withdrawal, attribute set larger than a message',
        withdrawn != ['11.0.0.0/8'],
        '%d message(s), withdrawn %s' % (len(messages), withdrawn),
        "withdrawn ['11.0.0.0/8'] (the attributes are not part of a withdraw-only UPDATE; the IPv6 equivalent is sent)",
    )


def b5_attributes_only_update_is_not_size_checked():
    out = negotiated()
    a = attributes(path_length=1100)
    collection = UpdateCollection([RoutedNLRI(Empty(AFI.ipv4, SAFI.unicast), IP.NoNextHop)], [], a)
    messages = list(collection.messages(out))
    report(
        'B5 attributes-only UPDATE (Empty NLRI, "announce attributes") with attributes above the maximum',
        any(len(m) > out.msg_size for m in messages),
        'message lengths %s for a negotiated maximum of %d' % ([len(m) for m in messages], out.msg_size),
        'no message longer than %d' % out.msg_size,
    )


def b6_peer_without_multiprotocol_capability():
    sent_capabilities = Capabilities()
    mp = MultiProtocol()
    mp.append((AFI.ipv4, SAFI.unicast))
    sent_capabilities[Capability.CODE.MULTIPROTOCOL] = mp
    sent = Open.make_open(Version(4), ASN(65000), HoldTime(180), RouterID('1.1.1.1'), sent_capabilities)
    received = Open.make_open(Version(4), ASN(65001), HoldTime(180), RouterID('2.2.2.2'), Capabilities())
    out = negotiated(families=[])
    out.sent(sent)
    out.received(received)
    session = Mock()
    session.session.peer_as = None
    session.session.local_as = ASN(65000)
    session.session.router_id = RouterID('1.1.1.1')
    refused = out.validate(session)
    out.asn4 = True
    route = RoutedNLRI(inet('10.0.0.0', 24), IP.from_string('192.0.2.1'))
    messages = list(UpdateCollection([route], [], attributes()).messages(out))
    report(
        'B6 peer OPEN without any Multiprotocol capability (plain RFC 4271 speaker): IPv4 unicast routes are dropped',
        refused is None and not messages,
        'session accepted (validate() -> %s), negotiated families %s, %d UPDATE generated for 10.0.0.0/24' % (refused, out.families, len(messages)),
        'one UPDATE announcing 10.0.0.0/24 (RFC 4760 section 8: without the capability the session is IPv4 unicast only)',
    )


def b7_next_hop_of_a_family_the_session_cannot_carry():
    out, inn = negotiated(), negotiated(Direction.IN)
    for tag, route in (
        ('B7a IPv6 unicast route with an IPv4 next hop', RoutedNLRI(inet('2001:db8:1::', 48, AFI.ipv6), IP.from_string('192.0.2.1'))),
        (
            'B7b IPv4 unicast route with an IPv6 next hop, extended next hop (RFC 8950) NOT negotiated',
            RoutedNLRI(inet('10.0.0.0', 24), IP.from_string('2001:db8::1')),
        ),
    ):
        messages = list(UpdateCollection([route], [], attributes()).messages(out))
        outcome = []
        for m in messages:
            try:
                parsed = UpdateCollection.unpack_message(bytes(m[19:]), inn)
                outcome.append('parses, announces %s' % [(str(r.nlri), str(r.nexthop)) for r in parsed.announces])
            except Exception as exc:  # noqa: BLE001
                outcome.append('does not parse: %s %r' % (type(exc).__name__, str(exc)))
        report(
            tag + ': the UPDATE generated is refused by the decoder',
            any(o.startswith('does not parse') for o in outcome),
            '%d message(s): %s' % (len(messages), outcome),
            'either no message (ValueError like the other announce validations) or one which parses',
        )


def main():
    for check in (
        b1_eor_for_skipped_mp_withdraw,
        b2_attributes_only_update_when_mp_route_does_not_fit,
        b3_ipv4_next_hop_is_not_the_route_next_hop,
        b4_withdrawal_lost_because_of_attributes_it_does_not_carry,
        b5_attributes_only_update_is_not_size_checked,
        b6_peer_without_multiprotocol_capability,
        b7_next_hop_of_a_family_the_session_cannot_carry,
    ):
        check()
    print()
    if PROBLEMS:
        print('%d problem(s) reproduced:' % len(PROBLEMS))
        for tag in PROBLEMS:
            print('  - ' + tag)
        return 1
    print('no problem reproduced')
    return 0


if __name__ == '__main__':
    sys.exit(main())
