import sys
sys.path.insert(0,'/tmp/obs_C13/_out')
from probe_lib import *
from t4 import go, attr, ORIGIN, ASPATH, NH, LP, BASE, upd
from t5 import reach, unreach, mp, B, V4NH, V6NH, RD
def tlv(t, v): return struct.pack('!HH', t, len(v)) + v
def lsnlri(t, proto, ident, body): 
    p = bytes([proto]) + struct.pack('!Q', ident) + body
    return struct.pack('!HH', t, len(p)) + p
ASN = tlv(512, struct.pack('!L', 65000)); LSID = tlv(513, struct.pack('!L', 1)); AREA = tlv(514, bytes(4)); RID = tlv(515, bytes([1,1,1,1]))
ISIS = tlv(515, bytes.fromhex('010203040506')); ISISPSN = tlv(515, bytes.fromhex('01020304050607'))
LOCAL = tlv(256, ASN+LSID+AREA+RID); REMOTE = tlv(257, ASN+LSID+AREA+RID)
def lsattr(*tlvs): return attr(0x80, 29, b''.join(tlvs))
def ls(nlri, *tlvs, safi=71, nh=V4NH): return upd(B + lsattr(*tlvs) + reach(16388, safi, nh, nlri), nlri=b'')
NODE = lsnlri(1, 3, 0, LOCAL)
if __name__ == '__main__':
  go('ls node', 2, ls(NODE))
  go('ls node max id', 2, ls(lsnlri(1, 3, 2**64-1, LOCAL)))
  go('ls node isis', 2, ls(lsnlri(1, 1, 0, tlv(256, ASN+ISIS))))
  go('ls node isis psn', 2, ls(lsnlri(1, 2, 0, tlv(256, ASN+ISISPSN))))
  go('ls node ospf dr', 2, ls(lsnlri(1, 3, 0, tlv(256, tlv(515, bytes([1,1,1,1,2,2,2,2]))))))
  go('ls node dup subtlv', 2, ls(lsnlri(1, 3, 0, tlv(256, ASN+ASN+RID+RID))))
  go('ls node empty desc', 2, ls(lsnlri(1, 3, 0, tlv(256, b''))))
  go('ls node wrong desc type', 2, ls(lsnlri(1, 3, 0, tlv(257, ASN))))
  go('ls node proto 4,5,6,7', 2, ls(b''.join(lsnlri(1, p, 0, LOCAL) for p in (4,5,6))))
  go('ls node proto 7', 2, ls(lsnlri(1, 7, 0, LOCAL)))
  go('ls node proto 0', 2, ls(lsnlri(1, 0, 0, LOCAL)))
  go('ls node area v6', 2, ls(lsnlri(1, 3, 0, tlv(256, tlv(514, bytes(16))))))
  go('ls node extra tlv', 2, ls(lsnlri(1, 3, 0, LOCAL + tlv(999, b'"\n'))))
  go('ls two nodes', 2, ls(NODE + NODE))
  go('ls unknown nlri type', 2, ls(lsnlri(99, 3, 0, b'"\n\x00')))
  go('ls nlri type 5 (te policy)', 2, ls(lsnlri(5, 3, 0, LOCAL)))
  go('ls nlri type 0', 2, ls(struct.pack('!HH', 0, 0)))
  go('ls nlri short', 2, ls(struct.pack('!HH', 1, 2) + b'ab'))
  go('ls withdraw node', 2, upd(unreach(16388, 71, NODE), nlri=b''))
  go('ls v6 nh', 2, ls(NODE, nh=V6NH))
  # link
  LINK = lsnlri(2, 3, 0, LOCAL + REMOTE + tlv(258, struct.pack('!LL', 1, 2)) + tlv(259, bytes([10,0,0,1])) + tlv(260, bytes([10,0,0,2])) + tlv(261, bytes(16)) + tlv(262, bytes(16)) + tlv(263, struct.pack('!HH', 1, 0xffff)))
  go('ls link', 2, ls(LINK))
  go('ls link dup all', 2, ls(lsnlri(2, 3, 0, LOCAL + REMOTE + (tlv(258, struct.pack('!LL', 1, 2)) + tlv(259, bytes([10,0,0,1])) + tlv(260, bytes([10,0,0,2])) + tlv(263, struct.pack('!H', 1)))*2)))
  go('ls link minimal', 2, ls(lsnlri(2, 3, 0, LOCAL + REMOTE)))
  go('ls link no remote', 2, ls(lsnlri(2, 3, 0, LOCAL)))
  go('ls link unknown tlv', 2, ls(lsnlri(2, 3, 0, LOCAL + REMOTE + tlv(999, b'"\n'))))
  go('ls link mtid empty', 2, ls(lsnlri(2, 3, 0, LOCAL + REMOTE + tlv(263, b''))))
  go('ls link iface len 5', 2, ls(lsnlri(2, 3, 0, LOCAL + REMOTE + tlv(259, b'12345'))))
  # prefix v4 / v6
  go('ls prefix4', 2, ls(lsnlri(3, 3, 0, LOCAL + tlv(264, b'\x01') + tlv(265, bytes([24, 10, 0, 0])))))
  go('ls prefix4 dup reach', 2, ls(lsnlri(3, 3, 0, LOCAL + tlv(265, bytes([24, 10, 0, 0])) + tlv(265, bytes([24, 11, 0, 0])) + tlv(264, b'\x01') + tlv(264, b'\x02'))))
  go('ls prefix4 /0', 2, ls(lsnlri(3, 3, 0, LOCAL + tlv(265, bytes([0])))))
  go('ls prefix4 /33', 2, ls(lsnlri(3, 3, 0, LOCAL + tlv(265, bytes([33, 1,2,3,4,5])))))
  go('ls prefix4 mtid', 2, ls(lsnlri(3, 3, 0, LOCAL + tlv(263, struct.pack('!H', 2)) + tlv(265, bytes([24, 10, 0, 0])))))
  go('ls prefix4 ospf type 9', 2, ls(lsnlri(3, 3, 0, LOCAL + tlv(264, b'\xff') + tlv(265, bytes([24, 10, 0, 0])))))
  go('ls prefix4 no local', 2, ls(lsnlri(3, 3, 0, tlv(265, bytes([24, 10, 0, 0])))))
  go('ls prefix6', 2, ls(lsnlri(4, 3, 0, LOCAL + tlv(264, b'\x01') + tlv(265, bytes([32]) + bytes.fromhex('20010db8')))))
  go('ls prefix6 dup', 2, ls(lsnlri(4, 3, 0, LOCAL + tlv(265, bytes([32]) + bytes.fromhex('20010db8'))*2 + tlv(264, b'\x01')*2)))
  go('ls prefix6 /129', 2, ls(lsnlri(4, 3, 0, LOCAL + tlv(265, bytes([129]) + bytes(17)))))
  # srv6 sid
  go('ls srv6sid', 2, ls(lsnlri(6, 3, 0, LOCAL + tlv(518, bytes.fromhex('20010db8000000000000000000000001')))))
  go('ls srv6sid dup', 2, ls(lsnlri(6, 3, 0, LOCAL + tlv(518, bytes.fromhex('20010db8000000000000000000000001'))*2 + tlv(263, struct.pack('!H', 2))*2)))
  go('ls srv6sid unknown', 2, ls(lsnlri(6, 3, 0, LOCAL + tlv(999, b'"\n'))))
  go('ls srv6sid none', 2, ls(lsnlri(6, 3, 0, LOCAL)))
  # vpn
  go('lsvpn node', 2, ls(RD + NODE, safi=72, nh=bytes(8)+V4NH))
  go('lsvpn node2', 2, ls(NODE[:4] + RD + NODE[4:], safi=72, nh=bytes(8)+V4NH))
  go('lsvpn link', 2, ls(struct.pack('!HH', 2, len(LINK)-4+8) + RD + LINK[4:], safi=72, nh=bytes(8)+V4NH))
  go('lsvpn prefix', 2, ls(lsnlri(3, 3, 0, LOCAL + tlv(265, bytes([24, 10, 0, 0])))[:4] + RD, safi=72, nh=bytes(8)+V4NH))
