import sys, random
sys.path.insert(0,'/tmp/obs_C13/_out')
import probe_lib
from probe_lib import *
from t4 import go, attr, ORIGIN, ASPATH, NH, LP, BASE, upd
from t5 import reach, unreach, mp, B, V4NH, V6NH, RD
from t9 import scan
if __name__ == '__main__':
  # add-path
  n, neg = negotiated(True)
  print('addpath receive ipv4 unicast:', neg.addpath.receive(*list(neg.families)[0]), neg.required(*list(neg.families)[0]) if hasattr(neg,'required') else '')
  P = lambda i: struct.pack('!L', i)
  go('addpath two paths same prefix', 2, upd(BASE, nlri=P(1)+bytes.fromhex('080a')+P(2)+bytes.fromhex('080a')), add_path=True)
  go('addpath id max', 2, upd(BASE, nlri=P(0xffffffff)+bytes.fromhex('080a')+P(0)+bytes.fromhex('080a')), add_path=True)
  go('addpath withdraw', 2, upd(b'', nlri=b'', wd=P(1)+bytes.fromhex('080a')+P(1)+bytes.fromhex('080a')), add_path=True)
  go('addpath labelled', 2, mp(1,4,V4NH, P(7)+bytes.fromhex('20' + '000641' + '0a')), add_path=True)
  go('addpath vpn', 2, mp(1,128,bytes(8)+V4NH, P(7)+bytes.fromhex('60' + '000641') + RD + bytes.fromhex('0a')), add_path=True)
  go('addpath v6', 2, mp(2,1,V6NH, P(7)+bytes.fromhex('2020010db8')), add_path=True)
  scan('addpath random evpn/flow/..', lambda r: mp(r.choice([1,2,25]), r.choice([1,2,4,128,133,70,65,85,5,73,132]), r.choice([V4NH,V6NH,b'',bytes(8)+V4NH]), r.randbytes(r.randrange(1,40))), 3000)
  # malformed attributes: treat-as-withdraw / discard
  go('bad origin len', 2, upd(attr(0x40,1,b'\x00\x00') + ASPATH + NH))
  go('bad origin flags', 2, upd(attr(0x80,1,b'\x00') + ASPATH + NH))
  go('bad aspath', 2, upd(ORIGIN + attr(0x40,2,b'\x02\x05\x00') + NH))
  go('bad nexthop len', 2, upd(ORIGIN + ASPATH + attr(0x40,3,b'\x01\x02\x03')))
  go('bad med len', 2, upd(BASE + attr(0x80,4,b'\x01')))
  go('bad lp len', 2, upd(ORIGIN+ASPATH+NH + attr(0x40,5,b'\x01')))
  go('bad atomic len', 2, upd(BASE + attr(0x40,6,b'\x01')))
  go('bad aggregator len', 2, upd(BASE + attr(0xC0,7,b'\x01')))
  go('bad community len', 2, upd(BASE + attr(0xC0,8,b'\x01\x02\x03')))
  go('bad originator len', 2, upd(BASE + attr(0x80,9,b'\x01')))
  go('bad cluster len', 2, upd(BASE + attr(0x80,10,b'\x01')))
  go('bad large comm len', 2, upd(BASE + attr(0xC0,32,b'\x01')))
  go('bad aigp', 2, upd(BASE + attr(0x80,26,b'\x01\x00\x03')))
  go('bad pmsi', 2, upd(BASE + attr(0xC0,22,b'\x01')))
  go('bad ext flags partial wk', 2, upd(attr(0x60,1,b'\x00') + ASPATH + NH))
  go('attr len overrun', 2, upd(BASE + b'\xc0\x63\x10ab'))
  go('bad as4path', 2, upd(BASE + attr(0xC0,17,b'\x02\x05\x00')))
  go('bad as4aggr', 2, upd(BASE + attr(0xC0,18,b'\x02')))
  go('bad psid', 2, upd(BASE + attr(0xC0,40,b'\x01\x00\x09ab')))
  go('bad bgpls', 2, upd(BASE + attr(0x80,29,b'\x04\x02\x00\x09ab')))
  go('bad tunnel encap', 2, upd(BASE + attr(0xC0,23,b'\x00\x0f\x00\x09ab')))
  go('bad ec6', 2, upd(BASE + attr(0xC0,25,b'\x01')))
  scan('random attrs', lambda r: upd(ORIGIN+ASPATH+NH + b''.join(attr(r.choice([0x40,0x80,0xC0,0xE0,0x90, r.randrange(256)&0xF0]), r.choice([1,2,3,4,5,6,7,8,9,10,14,15,16,17,18,22,23,25,26,29,32,40, r.randrange(256)]), r.randbytes(r.choice([0,1,2,3,4,6,8,12,r.randrange(40)]))) for _ in range(r.randrange(1,4)))), 6000)
