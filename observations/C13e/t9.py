import sys, random
sys.path.insert(0,'/tmp/obs_C13/_out')
from probe_lib import *
from t4 import go, attr, ORIGIN, ASPATH, NH, LP, BASE, upd
from t5 import reach, unreach, mp, B, V4NH, V6NH, RD
HOST = b'a"\\\n\r\x00\x7f\x1b[31m\xc3\xa9\xff z'
def st(t, v): return (bytes([t, len(v)]) if t < 128 else bytes([t]) + struct.pack('!H', len(v))) + v
def tun(t, v): return struct.pack('!HH', t, len(v)) + v
def te(*t): return upd(BASE + attr(0xC0, 23, b''.join(t)))
def psid(*t): return upd(BASE + attr(0xC0, 40, b''.join(t)))
def ptlv(t, v): return bytes([t]) + struct.pack('!H', len(v)) + v
def scan(label, gen, n):
    bad = []
    rnd = random.Random(1)
    for i in range(n):
        body = gen(rnd)
        st_, info, res = run_case('x', 2, body)
        if st_ == 'refused': continue
        for kind, ver, pk, problems, out in res:
            if problems and not pk: bad.append((body.hex(), kind, ver, problems, out[:300]))
    print(f'{label}: ', 'no violation' if not bad else f'{len(bad)} violations, first: {bad[0]}')
if __name__ == '__main__':
  go('te sr-policy names', 2, te(tun(15, st(12, b'\x00') + st(13, b'\x00\x00\x00\x00\x00\x00\x00\x64') + st(15, b'\x05') + st(129, b'\x00' + HOST) + st(130, b'\x00' + HOST))))
  go('te sr-policy dup', 2, te(tun(15, (st(12, b'\x00') + st(15, b'\x05') + st(129, b'\x00a') + st(130, b'\x00b') + st(13, b'\x00\x00\x00\x00\x00\x00'))*2)))
  go('te two tunnels same type', 2, te(tun(15, st(15, b'\x05')), tun(15, st(15, b'\x06'))))
  go('te unknown tunnel', 2, te(tun(999, HOST), tun(999, b'x'), tun(0, b''), tun(65535, b'')))
  go('te sr-policy unknown subtlv', 2, te(tun(15, st(99, HOST) + st(99, b'x') + st(200, HOST))))
  seg = st(1, b'\x00\x00' + struct.pack('!L', (16000 << 12) | 0x1ff)) + st(9, b'\x00\x00' + struct.pack('!L', 4294967295))
  go('te seglist', 2, te(tun(15, st(128, b'\x00' + seg)*2)))
  go('te seglist all types', 2, te(tun(15, st(128, b'\x00' + b''.join(st(t, b'\xff'*40) for t in range(0, 20))))))
  go('te seglist short types', 2, te(tun(15, st(128, b'\x00' + b''.join(st(t, b'') for t in range(0, 20))))))
  go('te srv6 bsid', 2, te(tun(15, st(20, b'\xff\x00' + bytes(16) + b'\xff'*8) + st(13, b'\x00\x00' + bytes(16)))))
  go('te empty', 2, te())
  go('te empty tunnel', 2, te(tun(15, b'')))
  scan('te random subtlvs', lambda r: te(tun(r.choice([15, 15, 15, 1, 8, 13]), b''.join(st(r.choice([12, 13, 15, 20, 128, 129, 130, r.randrange(256)]), (b'\x00' + b''.join(st(r.choice([1,9,13,r.randrange(1,20)]), r.randbytes(r.choice([0,4,6,18,26,38, r.randrange(45)]))) for _ in range(r.randrange(4)))) if r.random() < .5 else r.randbytes(r.randrange(30))) for _ in range(r.randrange(5))))), 1500)
  # prefix-sid
  go('psid label index', 2, psid(ptlv(1, b'\x00\x00\x00' + b'\xff\xff\xff\xff')))
  go('psid dup', 2, psid(ptlv(1, b'\x00\x00\x00' + b'\x00\x00\x00\x01')*2, ptlv(3, b'\x00\x00' + b'\x00\x3e\x80\x00\x03\xe8')*2))
  go('psid unknown', 2, psid(ptlv(99, HOST), ptlv(99, b'x'), ptlv(2, HOST)))
  go('psid srgb empty', 2, psid(ptlv(3, b'\x00\x00')))
  sidinfo = lambda sub: bytes([1]) + struct.pack('!H', 21 + len(sub)) + b'\x00' + bytes(16) + b'\xff' + b'\xff\xff' + b'\x00' + sub
  struct_ = bytes([1]) + struct.pack('!H', 6) + bytes([40, 24, 16, 0, 16, 64])
  go('psid srv6 l3', 2, psid(ptlv(5, b'\x00' + sidinfo(struct_))))
  go('psid srv6 l3 dup struct + unknown', 2, psid(ptlv(5, b'\x00' + sidinfo(struct_*2 + bytes([9]) + struct.pack('!H', len(HOST)) + HOST + bytes([9, 0, 1, 65])))))
  go('psid srv6 l3+l2', 2, psid(ptlv(5, b'\x00' + sidinfo(b'')*2), ptlv(6, b'\x00' + sidinfo(b'') + bytes([7, 0, 2, 65, 66]))))
  go('psid srv6 l3 x2', 2, psid(ptlv(5, b'\x00' + sidinfo(b'')), ptlv(5, b'\x00' + sidinfo(b''))))
  go('psid empty', 2, psid())
  scan('psid random', lambda r: psid(*[ptlv(r.choice([1,3,5,6,r.randrange(256)]), r.choice([b'\x00' + b''.join(bytes([r.choice([1,r.randrange(5)])]) + (lambda v: struct.pack('!H', len(v)) + v)(r.randbytes(r.choice([21, 30, r.randrange(40)]))) for _ in range(r.randrange(3))), r.randbytes(r.choice([7, 8, 14, r.randrange(20)]))])) for _ in range(r.randrange(4))]), 1500)
