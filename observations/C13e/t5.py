import sys
sys.path.insert(0,'/tmp/obs_C13/_out')
from probe_lib import *
from t4 import go, attr, ORIGIN, ASPATH, NH, LP, BASE, upd
B = ORIGIN + ASPATH + LP
def reach(afi, safi, nh, nlri): return attr(0x90, 14, struct.pack('!HB', afi, safi) + bytes([len(nh)]) + nh + b'\x00' + nlri)
def unreach(afi, safi, nlri): return attr(0x90, 15, struct.pack('!HB', afi, safi) + nlri)
def mp(afi, safi, nh, nlri, extra=b'', **kw): return upd(B + extra + reach(afi, safi, nh, nlri), nlri=b'')
V4NH = bytes([1,2,3,4]); V6NH = bytes.fromhex('20010db8000000000000000000000001'); LL = bytes.fromhex('fe800000000000000000000000000001')
RD = bytes.fromhex('0000fde800000001')
# ipv6 unicast
if __name__ == "__main__": go('v6 unicast', 2, mp(2,1,V6NH, bytes.fromhex('2020010db8')))
if __name__ == "__main__": go('v6 unicast ll', 2, mp(2,1,V6NH+LL, bytes.fromhex('2020010db8')))
if __name__ == "__main__": go('v6 nh len 0', 2, mp(2,1,b'', bytes.fromhex('2020010db8')))
if __name__ == "__main__": go('v6 nh len 4', 2, mp(2,1,V4NH, bytes.fromhex('2020010db8')))
if __name__ == "__main__": go('v4 mp v6 nh', 2, mp(1,1,V6NH, bytes.fromhex('080a')))
if __name__ == "__main__": go('v4 mp + nlri same nh', 2, upd(BASE + reach(1,1,V4NH, bytes.fromhex('080b')), nlri=bytes.fromhex('080a')))
if __name__ == "__main__": go('v4 mp + nlri same prefix', 2, upd(BASE + reach(1,1,V4NH, bytes.fromhex('080a')), nlri=bytes.fromhex('080a')))
if __name__ == "__main__": go('v4 multicast', 2, mp(1,2,V4NH, bytes.fromhex('08e0')))
# labelled
if __name__ == "__main__": go('v4 labelled', 2, mp(1,4,V4NH, bytes.fromhex('20' + '000641' + '0a')))
if __name__ == "__main__": go('v4 labelled 2 labels', 2, mp(1,4,V4NH, bytes.fromhex('38' + '000640' + '000651' + '0a')))
if __name__ == "__main__": go('v4 labelled withdraw label', 2, upd(unreach(1,4, bytes.fromhex('20' + '800000' + '0a')), nlri=b''))
if __name__ == "__main__": go('v4 labelled same prefix two labels', 2, mp(1,4,V4NH, bytes.fromhex('20' + '000641' + '0a' + '20' + '000651' + '0a')))
if __name__ == "__main__": go('v4 labelled label 0 bos', 2, mp(1,4,V4NH, bytes.fromhex('20' + '000001' + '0a')))
if __name__ == "__main__": go('v4 labelled max label', 2, mp(1,4,V4NH, bytes.fromhex('20' + 'ffffff' + '0a')))
if __name__ == "__main__": go('v4 labelled no bos', 2, mp(1,4,V4NH, bytes.fromhex('20' + '000640' + '0a')))
if __name__ == "__main__": go('v6 labelled', 2, mp(2,4,V6NH, bytes.fromhex('38' + '000641' + '20010db8')))
# vpn
if __name__ == "__main__": go('v4 vpn', 2, mp(1,128, bytes(8)+V4NH, bytes.fromhex('60' + '000641') + RD + bytes.fromhex('0a')))
if __name__ == "__main__": go('v4 vpn rd types', 2, mp(1,128, bytes(8)+V4NH, b''.join(bytes.fromhex('60' + '000641') + rd + bytes.fromhex('0a') for rd in (bytes.fromhex('0001010203040005'), bytes.fromhex('0002000100000005'), bytes.fromhex('0063000100000005'), bytes.fromhex('ffffffffffffffff')))))
if __name__ == "__main__": go('v4 vpn nh rd nonzero', 2, mp(1,128, RD+V4NH, bytes.fromhex('60' + '000641') + RD + bytes.fromhex('0a')))
if __name__ == "__main__": go('v6 vpn', 2, mp(2,128, bytes(8)+V6NH, bytes.fromhex('78' + '000641') + RD + bytes.fromhex('20010db8')))
if __name__ == "__main__": go('v4 vpn withdraw', 2, upd(unreach(1,128, bytes.fromhex('60' + '800000') + RD + bytes.fromhex('0a')), nlri=b''))
if __name__ == "__main__": go('v4 vpn reach+unreach same', 2, upd(B + reach(1,128, bytes(8)+V4NH, bytes.fromhex('60' + '000641') + RD + bytes.fromhex('0a')) + unreach(1,128, bytes.fromhex('60' + '800000') + RD + bytes.fromhex('0a')), nlri=b''))
# EOR
for a,s in (((2,1),(1,128),(1,133),(25,70),(25,65),(16388,71),(1,132),(1,73),(1,5),(99,99),(1,0),(0,0),(1,255),(65535,255)) if __name__ == "__main__" else ()):
    go(f'EOR {a}/{s}', 2, upd(unreach(a,s,b''), nlri=b''))
if __name__ == "__main__": go('EOR + attrs', 2, upd(B + unreach(2,1,b''), nlri=b''))
if __name__ == "__main__": go('reach empty nlri', 2, upd(B + reach(2,1,V6NH,b''), nlri=b''))
if __name__ == "__main__": go('reach unknown family', 2, upd(B + reach(99,99,V4NH,b'abc'), nlri=b''))
if __name__ == "__main__": go('unreach unknown family', 2, upd(B + unreach(99,99,b'abc'), nlri=b''))
# rtc
if __name__ == "__main__": go('rtc', 2, mp(1,132,V4NH, bytes.fromhex('60' + '0000fde8' + '0002fde800000001')))
if __name__ == "__main__": go('rtc default', 2, mp(1,132,V4NH, bytes.fromhex('00')))
if __name__ == "__main__": go('rtc partial', 2, mp(1,132,V4NH, bytes.fromhex('30' + '0000fde8' + '0002')))
if __name__ == "__main__": go('rtc unknown ec', 2, mp(1,132,V4NH, bytes.fromhex('60' + 'fffffde8' + '9999fde800000001')))
# vpls
if __name__ == "__main__": go('vpls', 2, mp(25,65,V4NH, bytes.fromhex('0011') + RD + bytes.fromhex('0001' '0002' '0003' '000101')))
if __name__ == "__main__": go('vpls long', 2, mp(25,65,V4NH, bytes.fromhex('0015') + RD + bytes.fromhex('0001' '0002' '0003' '000101' 'deadbeef')))
if __name__ == "__main__": go('vpls short', 2, mp(25,65,V4NH, bytes.fromhex('000c') + RD + bytes.fromhex('0001' '0002')))
