import sys
sys.path.insert(0,'/tmp/obs_C13/_out')
from probe_lib import *
from t4 import go, attr, ORIGIN, ASPATH, NH, LP, BASE, upd
from t5 import reach, unreach, mp, B, V4NH, V6NH, RD
def flow(comps):
    data = b''.join(comps)
    if len(data) < 240: return bytes([len(data)]) + data
    return struct.pack('!H', 0xF000 | len(data)) + data
def num(t, *ops): return bytes([t]) + b''.join(ops)
def op(o, v): return bytes([o]) + v
END=0x80
dst = bytes([1, 24, 10, 0, 0]); src = bytes([2, 8, 11])
go('flow dst', 2, mp(1,133,b'', flow([dst])))
go('flow dst+src+all', 2, mp(1,133,b'', flow([dst, src, num(3, op(0x01, b'\x06'), op(END|0x01, b'\x11')), num(4, op(0x03,b'\x10'), op(0x40|END|0x15, b'\xff\xff')),
   num(5, op(END|1, b'\x50')), num(6, op(END|1, b'\x50')), num(7, op(END|1,b'\x08')), num(8, op(END|1,b'\x00')), num(9, op(END|0, b'\x02')), num(10, op(END|0x16, b'\x00\x40')), num(11, op(END|1, b'\x2e')), num(12, op(END|0x01, b'\x01'))])))
go('flow all ops', 2, mp(1,133,b'', flow([num(5, *[op(o, b'\x50') for o in range(0, 8)], *[op(0x40|o, b'\x50') for o in range(0,8)], op(END|7, b'\x50'))])))
go('flow len 8 val', 2, mp(1,133,b'', flow([num(5, op(END|0x31, b'\xff'*8))])))
go('flow len 4 val', 2, mp(1,133,b'', flow([num(5, op(END|0x21, b'\xff'*4))])))
go('flow tcp flags all', 2, mp(1,133,b'', flow([num(9, op(0x00, b'\xff'), op(0x01, b'\xff'), op(0x02,b'\xff'), op(0x03,b'\x00'), op(0x40,b'\x00'), op(END|0x13, b'\xff\xff'))])))
go('flow fragment all', 2, mp(1,133,b'', flow([num(12, op(0x00, b'\xff'), op(0x01, b'\x00'), op(0x02,b'\xf0'), op(END|0x03,b'\x0f'))])))
go('flow fragment 0', 2, mp(1,133,b'', flow([num(12, op(END|0x00, b'\x00'))])))
go('flow tcpflags 0', 2, mp(1,133,b'', flow([num(9, op(END|0x00, b'\x00'))])))
go('flow empty', 2, mp(1,133,b'', flow([])))
go('flow unknown comp', 2, mp(1,133,b'', flow([num(14, op(END|1, b'\x01'))])))
go('flow comp 13 in v4', 2, mp(1,133,b'', flow([num(13, op(END|1, b'\x01'))])))
go('flow dup comp', 2, mp(1,133,b'', flow([num(5, op(END|1, b'\x50')), num(5, op(END|1, b'\x51'))])))
go('flow out of order', 2, mp(1,133,b'', flow([num(6, op(END|1, b'\x50')), num(5, op(END|1, b'\x51'))])))
go('flow two nlri', 2, mp(1,133,b'', flow([dst]) + flow([dst])))
go('flow with nh', 2, mp(1,133,V4NH, flow([dst])))
go('flow with v6 nh', 2, mp(1,133,V6NH, flow([dst])))
go('flow withdraw', 2, upd(unreach(1,133, flow([dst])), nlri=b''))
go('flow big', 2, mp(1,133,b'', flow([num(5, *[op(1, b'\x50')]*200, op(END|1, b'\x50'))])))
go('flow dst /0', 2, mp(1,133,b'', flow([bytes([1,0])])))
go('flow dst /33', 2, mp(1,133,b'', flow([bytes([1,33,1,2,3,4,5])])))
go('flow6 dst', 2, mp(2,133,b'', flow([bytes([1, 32, 0]) + bytes.fromhex('20010db8')])))
go('flow6 dst offset', 2, mp(2,133,b'', flow([bytes([1, 64, 32]) + bytes.fromhex('20010db8')])))
go('flow6 dst offset>len', 2, mp(2,133,b'', flow([bytes([1, 32, 64])])))
go('flow6 flow label', 2, mp(2,133,b'', flow([num(13, op(END|0x21, b'\x00\x0f\xff\xff'))])))
go('flow6 all', 2, mp(2,133,b'', flow([bytes([1, 32, 0]) + bytes.fromhex('20010db8'), bytes([2, 128, 0]) + bytes(16), num(3, op(END|1, b'\x3a')), num(7, op(END|1,b'\x80')), num(12, op(END|0, b'\x01')), num(13, op(END|0x01, b'\x01'))])))
go('flowvpn', 2, mp(1,134,b'', bytes([len(RD)+len(dst)]) + RD + dst))
go('flowvpn rd only', 2, mp(1,134,b'', bytes([len(RD)]) + RD))
go('flowvpn short', 2, mp(1,134,b'', bytes([3]) + b'abc'))
go('flowvpn6', 2, mp(2,134,b'', bytes([len(RD)+7]) + RD + bytes([1, 32, 0]) + bytes.fromhex('20010db8')))
# ext communities
def ec(*vals): return attr(0xC0, 16, b''.join(vals))
import math
for name, v in {
  'rate 0': bytes.fromhex('8006') + b'\x00\x00' + struct.pack('!f', 0.0),
  'rate nan': bytes.fromhex('8006') + b'\x00\x00' + bytes.fromhex('7fc00000'),
  'rate inf': bytes.fromhex('8006') + b'\x00\x00' + bytes.fromhex('7f800000'),
  'rate -inf': bytes.fromhex('8006') + b'\xff\xff' + bytes.fromhex('ff800000'),
  'rate huge': bytes.fromhex('8006') + b'\x00\x00' + bytes.fromhex('7f7fffff'),
  'rate denorm': bytes.fromhex('8006') + b'\x00\x00' + bytes.fromhex('00000001'),
  'rate pps nan': bytes.fromhex('800c') + b'\x00\x00' + bytes.fromhex('7fc00000'),
  'action': bytes.fromhex('8007') + bytes(5) + b'\x03',
  'action odd': bytes.fromhex('8007') + b'\xff'*6,
  'redirect': bytes.fromhex('8008') + bytes.fromhex('fde800000001'),
  'redirect ip': bytes.fromhex('8108') + bytes.fromhex('010203040001'),
  'redirect as4': bytes.fromhex('8208') + bytes.fromhex('0001000000ff'),
  'mark': bytes.fromhex('8009') + bytes(5) + b'\xff',
  'redirect nh': bytes.fromhex('0800') + bytes(5)+b'\x01',
  'redirect nh draft': bytes.fromhex('010c') + bytes.fromhex('010203040001'),
  'rt': bytes.fromhex('0002fde800000001'),
  'rt ip': bytes.fromhex('0102010203040001'),
  'rt as4': bytes.fromhex('0202000100000001'),
  'origin': bytes.fromhex('0003fde800000001'),
  'nt rt': bytes.fromhex('4002fde800000001'),
  'bandwidth': bytes.fromhex('4004fde8') + bytes.fromhex('7fc00000'),
  'bandwidth inf': bytes.fromhex('4004fde8') + bytes.fromhex('7f800000'),
  'encap': bytes.fromhex('030c') + bytes(4) + b'\x00\x08',
  'encap unknown': bytes.fromhex('030c') + bytes(4) + b'\xff\xff',
  'l2info': bytes.fromhex('800a') + b'\x13\xff\x05\xdc\x00\x00',
  'mac mobility': bytes.fromhex('0600') + b'\x01\x00' + b'\xff\xff\xff\xff',
  'esi label': bytes.fromhex('0601') + b'\x01\x00\x00' + b'\xff\xff\xff',
  'es import': bytes.fromhex('0602') + b'\xaa\xbb\xcc\xdd\xee\xff',
  'router mac': bytes.fromhex('0603') + b'\xaa\xbb\xcc\xdd\xee\xff',
  'evpn 04': bytes.fromhex('0604') + b'\xaa\xbb\xcc\xdd\xee\xff',
  'df election': bytes.fromhex('0606') + b'\xaa\xbb\xcc\xdd\xee\xff',
  'mup': bytes.fromhex('0c00') + b'\xaa\xbb\xcc\xdd\xee\xff',
  'unknown ff': b'\xff'*8,
  'zero': bytes(8),
  'ospf': bytes.fromhex('0305') + bytes(6),
  'origin validation': bytes.fromhex('4300') + bytes(5) + b'\x02',
  'ov bad': bytes.fromhex('4300') + bytes(5) + b'\xff',
  'color': bytes.fromhex('030b') + b'\xc0\x00' + b'\xff\xff\xff\xff',
  'vrf-import': bytes.fromhex('010b') + bytes(6),
  'source-as': bytes.fromhex('0009') + bytes(6),
  'l2vpn id': bytes.fromhex('000a') + bytes(6),
  'fs tr 0x80 0x0a': bytes.fromhex('800a') + b'\xff'*6,
  '0x80 all sub': b''.join(bytes([0x80, s]) + b'\x01\x02\x03\x04\x05\x06' for s in range(0, 16)),
  '0x81/0x82 subs': b''.join(bytes([t, s]) + b'\x01\x02\x03\x04\x05\x06' for t in (0x81,0x82) for s in range(0, 16)),
  'type 0..8 subs': b''.join(bytes([t, s]) + b'\x01\x02\x03\x04\x05\x06' for t in range(0,9) for s in range(0, 16)),
  'type 0x40.. subs': b''.join(bytes([t, s]) + b'\x01\x02\x03\x04\x05\x06' for t in range(0x40,0x48) for s in range(0, 16)),
}.items():
    go('ec ' + name, 2, upd(BASE + ec(v)))
go('ec empty', 2, upd(BASE + ec()))
go('ec dup', 2, upd(BASE + ec(bytes.fromhex('0002fde800000001'), bytes.fromhex('0002fde800000001'))))
go('ec odd len', 2, upd(BASE + attr(0xC0, 16, b'\x00'*9)))
# ipv6 ext community (25): 20 bytes
go('ec6', 2, upd(BASE + attr(0xC0, 25, bytes.fromhex('0002') + bytes.fromhex('20010db8000000000000000000000001') + b'\x00\x01')))
go('ec6 redirect', 2, upd(BASE + attr(0xC0, 25, bytes.fromhex('000d') + bytes.fromhex('20010db8000000000000000000000001') + b'\x00\x01')))
go('ec6 unknown', 2, upd(BASE + attr(0xC0, 25, b'\xff'*20 + bytes(20))))
go('ec6 empty', 2, upd(BASE + attr(0xC0, 25, b'')))
