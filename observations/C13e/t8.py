import sys
sys.path.insert(0,'/tmp/obs_C13/_out')
from probe_lib import *
from t4 import go, attr, ORIGIN, ASPATH, NH, LP, BASE, upd
from t5 import reach, unreach, mp, B, V4NH, V6NH, RD
from t7 import tlv, lsnlri, NODE, lsattr, ls
HOST = b'a"\\\n\r\x00\x7f\x1b[31m\xc3\xa9\xff z'
def a(*tlvs): return upd(BASE + lsattr(*tlvs))   # attribute 29 on a plain ipv4 unicast UPDATE
if __name__ == '__main__':
  go('lsattr on node nlri', 2, ls(NODE, tlv(1026, b'name')))
  go('lsattr empty', 2, a())
  go('lsattr node name hostile', 2, a(tlv(1026, HOST)))
  go('lsattr node name empty', 2, a(tlv(1026, b'')))
  go('lsattr node name long', 2, a(tlv(1026, b'x'*3000)))
  go('lsattr link name hostile', 2, a(tlv(1098, HOST)))
  go('lsattr opaque node', 2, a(tlv(1025, HOST)))
  go('lsattr opaque link', 2, a(tlv(1097, HOST)))
  go('lsattr opaque prefix', 2, a(tlv(1157, HOST)))
  go('lsattr unknown tlv', 2, a(tlv(9999, HOST)))
  go('lsattr unknown tlv x2', 2, a(tlv(9999, b'a'), tlv(9999, b'b')))
  go('lsattr unknown tlv 0', 2, a(tlv(0, b'a')))
  go('lsattr unknown tlv 65535', 2, a(tlv(65535, b'')))
  go('lsattr node flags', 2, a(tlv(1024, b'\xff')))
  go('lsattr isis area', 2, a(tlv(1027, b'\x49\x00\x01'), tlv(1027, b'')))
  go('lsattr isis area long', 2, a(tlv(1027, b'\xff'*20)))
  go('lsattr local rid 4/16', 2, a(tlv(1028, bytes([1,1,1,1])), tlv(1029, bytes(16)), tlv(1030, bytes([2,2,2,2])), tlv(1031, bytes(16))))
  go('lsattr local rid bad len', 2, a(tlv(1028, b'abc')))
  go('lsattr admin group', 2, a(tlv(1088, b'\xff\xff\xff\xff')))
  for t in (1089, 1090):
    for nm, v in (('nan', '7fc00000'), ('inf', '7f800000'), ('-inf', 'ff800000'), ('max', '7f7fffff'), ('tiny', '00000001'), ('neg0', '80000000')):
      go(f'lsattr bw {t} {nm}', 2, a(tlv(t, bytes.fromhex(v))))
  go('lsattr unreserved bw nan', 2, a(tlv(1091, bytes.fromhex('7fc00000')*8)))
  go('lsattr unreserved bw inf', 2, a(tlv(1091, bytes.fromhex('7f800000ff800000')*4)))
  go('lsattr te metric', 2, a(tlv(1092, b'\xff\xff\xff\xff')))
  go('lsattr protection', 2, a(tlv(1093, b'\xff\xff')))
  go('lsattr mpls mask', 2, a(tlv(1094, b'\xff')))
  for l in (1,2,3):
    go(f'lsattr igp metric len {l}', 2, a(tlv(1095, b'\xff'*l)))
  go('lsattr igp metric len 4', 2, a(tlv(1095, b'\xff'*4)))
  go('lsattr srlg', 2, a(tlv(1096, b'\xff'*8)))
  go('lsattr srlg empty', 2, a(tlv(1096, b'')))
  go('lsattr igp flags', 2, a(tlv(1152, b'\xff')))
  go('lsattr route tags', 2, a(tlv(1153, b'\xff'*8), tlv(1154, b'\xff'*16)))
  go('lsattr prefix metric', 2, a(tlv(1155, b'\xff'*4)))
  go('lsattr ospf fwd', 2, a(tlv(1156, bytes(4))))
  go('lsattr ospf fwd v6', 2, a(tlv(1156, bytes(16))))
  go('lsattr sr cap', 2, a(tlv(1034, b'\xc0\x00' + b'\x00\x03\xe8' + tlv(1161, b'\x00\x3e\x80'))))
  go('lsattr sr cap multi', 2, a(tlv(1034, b'\xc0\x00' + (b'\x00\x03\xe8' + tlv(1161, b'\x00\x3e\x80'))*3 + b'\x00\x03\xe8' + tlv(1161, bytes(4)))))
  go('lsattr sr cap bad sub', 2, a(tlv(1034, b'\xc0\x00' + b'\x00\x03\xe8' + tlv(999, b'"\n\x00'))))
  go('lsattr sr algo', 2, a(tlv(1035, bytes(range(0, 256)))))
  go('lsattr sr algo empty', 2, a(tlv(1035, b'')))
  go('lsattr srlb 1036', 2, a(tlv(1036, b'\x00\x00' + b'\x00\x03\xe8' + tlv(1161, b'\x00\x3e\x80'))))
  go('lsattr srms pref 1037', 2, a(tlv(1037, b'\xff')))
  go('lsattr adj sid', 2, a(tlv(1099, b'\x30\x00\x00\x00' + b'\x00\x3e\x80'), tlv(1099, b'\xff\xff\x00\x00' + bytes(4))))
  go('lsattr adj sid odd len', 2, a(tlv(1099, b'\x30\x00\x00\x00' + b'\x00\x3e\x80\x01\x02')))
  go('lsattr lan adj sid', 2, a(tlv(1100, b'\x30\x00\x00\x00' + bytes(6) + b'\x00\x3e\x80'), tlv(1100, b'\x30\x00\x00\x00' + bytes(4) + b'\x00\x3e\x80')))
  go('lsattr prefix sid', 2, a(tlv(1158, b'\xff\x00\x00\x00' + bytes(4)), tlv(1158, b'\x0c\xff\x00\x00' + bytes(3))))
  go('lsattr range 1159', 2, a(tlv(1159, b'\x00\x00\x00\x05' + tlv(1158, b'\x00\x00\x00\x00' + bytes(4)))))
  go('lsattr prefix attr flags', 2, a(tlv(1170, b'\xff')))
  go('lsattr source rid', 2, a(tlv(1171, bytes(4))), )
  go('lsattr source rid 16', 2, a(tlv(1171, bytes(16))), )
  go('lsattr srv6 endx', 2, a(tlv(1106, b'\x00\x05\xe0\x00\x00\x00' + bytes(16) + tlv(1252, bytes([32,16,16,0])))))
  go('lsattr srv6 endx x2 + unknown sub', 2, a(tlv(1106, b'\xff\xff\xff\xff\xff\xff' + bytes(16) + tlv(999, HOST)), tlv(1106, b'\x00\x05\xe0\x00\x00\x00' + bytes(16))))
  go('lsattr srv6 lan endx isis', 2, a(tlv(1107, b'\x00\x05\xe0\x00\x00\x00' + bytes(6) + bytes(16) + tlv(1252, bytes([32,16,16,0])))))
  go('lsattr srv6 lan endx ospf', 2, a(tlv(1108, b'\x00\x05\xe0\x00\x00\x00' + bytes(4) + bytes(16) + tlv(1252, bytes([32,16,16,0]))*2)))
  go('lsattr srv6 cap', 2, a(tlv(1038, b'\xff\xff\x00\x00')))
  go('lsattr srv6 locator', 2, a(tlv(1162, b'\xff\x00\x00\x00\x00\x00\x00\x01'), tlv(1162, b'\xff\x00\x00\x00\x00\x00\x00\x01' + tlv(999, HOST))))
  go('lsattr srv6 endpoint behavior', 2, a(tlv(1250, b'\xff\xff\xff\xff')))
  go('lsattr srv6 sid structure', 2, a(tlv(1252, b'\xff\xff\xff\xff')))
  go('lsattr delay metrics', 2, a(tlv(1114, b'\xff'*4), tlv(1115, b'\xff'*8), tlv(1116, b'\xff'*4), tlv(1117, b'\xff'*4), tlv(1118, b'\xff'*4), tlv(1119, b'\xff'*4), tlv(1120, b'\xff'*4)))
  go('lsattr all node tlvs dup', 2, a(tlv(1024, b'\xff'), tlv(1024, b'\x00')))
  go('lsattr msd 266/267', 2, a(tlv(266, b'\x01\x0a\x02\x05'), tlv(267, b'\x01\x0a')))
  go('lsattr tlv truncated', 2, a(b'\x04\x02\x00\x10ab'))
  # every code 256..1300 with 4 hostile bytes, one attribute each (bulk)
  bad = []
  for code in list(range(250, 300)) + list(range(1020, 1300)):
    for payload in (b'"\n\\\x00', b'\xff'*8, b'\xff', b'', b'\xff'*24):
      st, info, res = run_case('x', 2, a(tlv(code, payload)))
      if st == 'refused': continue
      for kind, ver, pk, problems, out in res:
        if problems and not pk: bad.append((code, payload, kind, ver, problems))
  print('bulk lsattr scan:', 'no violation' if not bad else bad[:20])
