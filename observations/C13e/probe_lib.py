"""Helpers of baseline_probe.py: decode wire bytes with the real decoders, render with the
real encoders (JSON / text, API 4 / 6), check the record the way an API consumer would."""

from __future__ import annotations

import json
import logging
import os
import struct
import sys
import traceback

os.environ.setdefault('exabgp_log_enable', 'false')
logging.disable(logging.CRITICAL)

from exabgp.environment import getenv  # noqa: E402
from exabgp.configuration.setup import create_minimal_configuration  # noqa: E402
from exabgp.configuration.check import _negotiated  # noqa: E402
from exabgp.bgp.message import Message  # noqa: E402
from exabgp.bgp.message import Open, Update, Notification  # noqa: E402,F401
from exabgp.bgp.message.notification import Notify  # noqa: E402
from exabgp.bgp.message.open.capability.negotiated import Negotiated  # noqa: E402
from exabgp.bgp.message.direction import Direction  # noqa: E402
from exabgp.reactor.api.response import Response  # noqa: E402
from exabgp.version import json as json_v6, json_v4, text_v4  # noqa: E402
text_v6 = json_v6

try:
    from exabgp.logger import log

    log.silence() if hasattr(log, 'silence') else None
except Exception:
    pass


_NEIGHBORS: dict = {}


def neighbor(add_path: bool = False):
    if add_path not in _NEIGHBORS:
        conf = create_minimal_configuration(families='all', add_path=add_path)
        n = list(conf.neighbors.values())[0]
        if add_path:
            from exabgp.bgp.neighbor.capability import NeighborCapability  # noqa
            n.capability.add_path = 3
        _NEIGHBORS[add_path] = n
    return _NEIGHBORS[add_path]


def negotiated(add_path: bool = False):
    n = neighbor(add_path)
    neg_in, _ = _negotiated(n)
    return n, neg_in


MARKER = b'\xff' * 16


def frame(msg_type: int, body: bytes) -> bytes:
    return MARKER + struct.pack('!HB', 19 + len(body), msg_type) + body


class DupKey(ValueError):
    pass


def _pairs(pairs):
    seen = {}
    for k, v in pairs:
        if k in seen:
            raise DupKey(f'duplicate key {k!r}')
        seen[k] = v
    return seen


def _reject_constant(name):
    raise ValueError(f'non JSON constant {name}')


ENVELOPE = ('exabgp', 'time', 'host', 'pid', 'ppid', 'type')


def wire(string: str) -> bytes:
    """What Processes.write() does with the rendered event (processes.py: write)."""
    return bytes(f'{string}\n', 'ascii')


def check_json(out: str, mtype: str, needs_neighbor: bool = True) -> list[str]:
    problems = []
    try:
        data = wire(out)
    except Exception as exc:  # UnicodeEncodeError
        return [f'Processes.write() raises {type(exc).__name__}: {str(exc)[:80]}']
    line = data.decode('ascii')
    if line.count('\n') != 1 or '\r' in line:
        problems.append(f'{line.count(chr(10))} line feeds in the record (one expected)')
    if any(ord(c) < 0x20 and c != '\n' for c in line) or '\x7f' in line:
        problems.append('raw control character in the record')
    try:
        doc = json.loads(line, object_pairs_hook=_pairs, parse_constant=_reject_constant)
    except DupKey as exc:
        problems.append(str(exc))
        doc = None
    except ValueError as exc:
        problems.append(f'does not parse: {str(exc)[:80]}')
        doc = None
    if doc is not None:
        if not isinstance(doc, dict):
            problems.append('top level is not an object')
        else:
            for k in ENVELOPE:
                if k not in doc:
                    problems.append(f'envelope key {k!r} missing')
            if doc.get('type') != mtype:
                problems.append(f'type is {doc.get("type")!r}, expected {mtype!r}')
            if needs_neighbor:
                nb = doc.get('neighbor')
                if not isinstance(nb, dict) or 'address' not in nb or 'asn' not in nb:
                    problems.append('neighbor envelope missing')
                elif mtype not in ('state', 'negotiated', 'fsm', 'signal') and nb.get('direction') != 'receive':
                    problems.append('direction missing')
    return problems


def check_text(out: str, expected_lines: int | None, prefix: str = 'neighbor 127.0.0.1 ') -> list[str]:
    problems = []
    try:
        data = wire(out)
    except Exception as exc:
        return [f'Processes.write() raises {type(exc).__name__}: {str(exc)[:80]}']
    text = data.decode('ascii')
    if any((ord(c) < 0x20 and c != '\n') or ord(c) == 0x7F for c in text):
        problems.append('raw control character in the record')
    lines = text.split('\n')
    # the encoder ends most events with \n and write() adds another: tolerate ONE trailing empty line
    assert lines[-1] == ''
    lines = lines[:-1]
    if lines and lines[-1] == '':
        lines = lines[:-1]
    if expected_lines is not None and len(lines) != expected_lines:
        problems.append(f'{len(lines)} lines, {expected_lines} expected')
    for ln in lines:
        if not ln.startswith(prefix) and not ln.startswith(' header ') and not ln.startswith(' body '):
            problems.append(f'line does not start with the peer prefix: {ln[:60]!r}')
    return problems


def encoders():
    return [
        ('json', 6, Response.JSON(json_v6)),
        ('json', 4, Response.V4.JSON(json_v4)),
        ('text', 6, Response.Text(text_v6)),
        ('text', 4, Response.V4.Text(text_v4)),
    ]


def decode(msg_type: int, body: bytes, add_path: bool = False):
    """Same call as Protocol.read_message (reactor/protocol.py)."""
    n, neg = negotiated(add_path)
    return n, neg, Message.unpack(msg_type, body, neg)


def render(enc, n, neg, msg_type: int, message, header: bytes, body: bytes):
    """Same calls as Processes._open/_update/_notification/_refresh/_operational (reactor/api/processes.py)."""
    if msg_type == 1:
        return 'open', enc.open(n, 'receive', message, header, body, neg)
    if msg_type == 2:
        coll = message if message.IS_EOR else message.data
        return 'update', enc.update(n, 'receive', coll, header, body, neg)
    if msg_type == 3:
        return 'notification', enc.notification(n, 'receive', message, header, body, neg)
    if msg_type == 4:
        return 'keepalive', enc.keepalive(n, 'receive', header, body, neg)
    if msg_type == 5:
        return 'refresh', enc.refresh(n, 'receive', message, header, body, neg)
    if msg_type == 6:
        return 'operational', enc.operational(n, 'receive', message.category, message, header, body, neg)
    raise ValueError(msg_type)


def expected_text_lines(msg_type: int, message, with_packet: bool) -> int | None:
    if msg_type != 2:
        return 1
    if message.IS_EOR:
        count = len(message.nlris)
    else:
        count = len(message.data.announces) + len(message.data.withdraws)
    return 2 + count + (1 if with_packet else 0)


def run_case(name: str, msg_type: int, body: bytes, add_path: bool = False, verbose: bool = False):
    """Returns list of (encoding, version, problems, output) ; problems == [] means correct.
    A message the decoder refuses (Notify) is reported as 'refused' and is not a violation."""
    results = []
    try:
        n, neg, message = decode(msg_type, body, add_path)
    except Notify as exc:
        return 'refused', f'Notify({exc.code},{exc.subcode}) {str(exc)[:70]}', []
    except Exception as exc:
        return 'refused', f'decoder raised {type(exc).__name__}: {str(exc)[:70]}', []
    raw = frame(msg_type, body)
    for with_packet in (False, True):
        header, pbody = (raw[:19], raw[19:]) if with_packet else (b'', b'')
        for kind, version, enc in encoders():
            try:
                mtype, out = render(enc, n, neg, msg_type, message, header, pbody)
            except Exception as exc:
                tb = traceback.extract_tb(sys.exc_info()[2])[-1]
                results.append(
                    (kind, version, with_packet,
                     [f'renderer raises {type(exc).__name__}: {str(exc)[:80]} ({os.path.basename(tb.filename)}:{tb.name})'],
                     '')
                )
                continue
            if kind == 'json':
                problems = check_json(out, mtype)
            else:
                problems = check_text(out, expected_text_lines(msg_type, message, with_packet))
            results.append((kind, version, with_packet, problems, out))
    return 'decoded', type(message).__name__, results
