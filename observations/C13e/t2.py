import sys
sys.path.insert(0,'/tmp/obs_C13/_out')
from probe_lib import *

def cap(code, val): return bytes([code, len(val)]) + val
def open_body(caps, asn=65533, hold=180, rid=b'\x01\x02\x03\x04', ext=False):
    params = b''.join(bytes([2, len(c)]) + c for c in caps)
    if ext or len(params) > 255:
        params = b''.join(bytes([2]) + struct.pack('!H', len(c)) + c for c in caps)
        return bytes([4]) + struct.pack('!HH', asn, hold) + rid + bytes([255, 255]) + struct.pack('!H', len(params)) + params
    return bytes([4]) + struct.pack('!HH', asn, hold) + rid + bytes([len(params)]) + params
def hn(h, d): return cap(73, bytes([len(h)]) + h + bytes([len(d)]) + d)
def sw(s): return cap(75, bytes([len(s)]) + s)

cases = {
 'hostname quotes/newline': [hn(b'a"\\\n\r\x00b', b'd"\n')],
 'hostname invalid utf8': [hn(b'\xff\xfe', b'\xc3')],
 'hostname non-ascii utf8': [hn('é'.encode(), 'ü'.encode())],
 'hostname long': [hn(b'a'*120, b'b'*120)],
 'hostname twice': [hn(b'a', b'b'), hn(b'c', b'd')],
 'hostname no domain': [cap(73, b'\x01a')],
 'hostname empty': [cap(73, b'')],
 'software quotes': [sw(b'v"1\n\\')],
 'software non-ascii': [sw('é'.encode())],
 'software invalid': [sw(b'\xff')],
 'software empty': [sw(b'')],
 'unknown cap': [cap(200, b'"\n\x00\xff')],
 'unknown cap twice': [cap(200, b'aa'), cap(200, b'bb')],
 'reserved cap 0': [cap(0, b'aa')],
 'mp unknown afi': [cap(1, b'\x00\x63\x00\x63'), cap(1, b'\x12\x34\x00\xff')],
 'mp dup': [cap(1, b'\x00\x01\x00\x01'), cap(1, b'\x00\x01\x00\x01')],
 'addpath unknown fam': [cap(69, b'\x00\x63\x63\x03' + b'\x00\x01\x01\x00'+ b'\x00\x01\x01\x07')],
 'addpath dup': [cap(69, b'\x00\x01\x01\x03'), cap(69, b'\x00\x01\x01\x01')],
 'graceful unknown fam': [cap(64, b'\x80\x78' + b'\x00\x63\x63\x80' + b'\x00\x01\x01\x00'+ b'\x12\x34\x63\x80')],
 'graceful empty': [cap(64, b'\x00\x00')],
 'nexthop unknown': [cap(5, b'\x00\x63\x00\x63\x00\x63' + b'\x00\x01\x00\x01\x00\x02')],
 'multisession': [cap(68, b'\x00\x01\x02'), cap(131, b'\x00\x05')],
 'asn4': [cap(65, b'\xff\xff\xff\xff')],
 'ext msg': [cap(6, b'')],
 'refresh all': [cap(2, b''), cap(128, b''), cap(70, b'')],
 'operational': [cap(185, b'')],
 'aigp cap?': [cap(0xFF, b'')],
 'llnh': [cap(77, b''), cap(76, b'\x00\x01\x01\x00\x05\x00\x63\x63\xff\xff')],
 'no caps': [],
 'many unknown': [cap(i, b'x') for i in range(90, 130)],
 'fqdn cap 184?': [cap(184, b'\x01a\x01b')],
 'role': [cap(9, b'\x03'), cap(9, b'\x09')],
 'bgpsec etc': [cap(7, b'\x00\x00\x01'), cap(8, b'\x00\x01\x00\x01\x00\x02'), cap(67, b''), cap(71, b'\x00\x00\x00\x01\x01\x80\x00\x00\x01'), cap(72, b'')],
}

for name, caps in (cases.items() if __name__ == "__main__" else ()):
    body = open_body(caps)
    st, info, res = run_case(name, 1, body)
    if st == 'refused':
        print(f'{name:28} REFUSED {info}'); continue
    for kind, ver, pk, problems, out in res:
        if problems and not pk:
            print(f'{name:28} {kind}{ver} VIOLATION {problems}\n      {out[:400]!r}')
    if not any(p for _,_,_,p,_ in res): print(f'{name:28} ok')
    if '-v' in sys.argv:
        print(res[0][4][res[0][4].find('"open"'):res[0][4].find('"negotiated"')]); print(res[2][4])
