"""baseline_probe.py - what the UNCHANGED tree in /tmp/obs_C13 writes to an API process.

  cd /tmp/obs_C13 && PYTHONPATH=/tmp/obs_C13/src /venv/bin/python _out/baseline_probe.py [--sweep]

One line per case.  Exit 1 if any violation reproduces.  --sweep also runs the t2..t12 case lists and the
random scans (the "found correct" list of baseline_observations.md), which takes a few minutes.
Every message is decoded with Message.unpack (as Protocol.read_message does) and rendered by the four encoders
the way Processes._open/_update/... call them; Processes.write()'s `bytes(string + "\\n", "ascii")` is applied too.
"""
import os, subprocess, sys
HERE = os.path.dirname(os.path.abspath(__file__))
sys.path.insert(0, HERE)
from probe_lib import *  # noqa
from t2 import open_body, hn, sw
from t3 import op
from t4 import attr, BASE, upd
from t7 import tlv
from t8 import lsattr
from t9 import st, tun

violations = 0


def text_of(kind_ver, t, body):
    n, neg, m = decode(t, body)
    enc = [e for k, v, e in encoders() if (k, v) == kind_ver][0]
    out = render(enc, n, neg, t, m, b'', b'')[1]
    assert not check_text(out, None), 'the generic line checks pass: what follows is about FIELDS'
    return out


def collide(name, t, forged_body, honest_body, what):
    """Two different received messages, one carrying a peer chosen string, the other a real field: same record."""
    global violations
    for kv in (('text', 4), ('text', 6)):
        a = text_of(kv, t, forged_body)
        b = text_of(kv, t, honest_body)
        same = a == b and forged_body != honest_body
        violations += same
        print(f'{"VIOLATION" if same else "ok       "} {name:34} {kv[0]} v{kv[1]}: {what}: forged={frame(t, forged_body).hex()} honest={frame(t, honest_body).hex()} -> {a.strip()!r}')


def shows(name, t, body, needle, what):
    global violations
    for kv in (('text', 4), ('text', 6)):
        a = text_of(kv, t, body)
        hit = needle in a
        violations += hit
        print(f'{"VIOLATION" if hit else "ok       "} {name:34} {kv[0]} v{kv[1]}: {what}: bytes={frame(t, body).hex()} -> {a.strip()!r}')


# V1 OPEN, text: the host name / domain name are pasted between "hostname(" and ")" with only control characters escaped
collide('open-hostname-forges-capability', 1,
        open_body([hn(b'a', b'), software(evil')]), open_body([hn(b'a', b''), sw(b'evil')]),
        'domain name "), software(evil" reads as a software-version capability the peer never sent')
collide('open-hostname-domain-boundary', 1,
        open_body([hn(b'a b', b'c')]), open_body([hn(b'a', b'b c')]),
        'host name and domain name are separated by a space either may contain')
# V2 OPERATIONAL advisory, text: the advisory is between double quotes and its own quotes are not escaped
shows('operational-advisory-quote', 6, op(1, bytes.fromhex('000101') + b'x" header 0xFF body 0x00 "'),
      'advisory "x" header 0xFF body 0x00 ""', 'the advisory closes its own quotes and adds header / body fields')
# V3 UPDATE, text: BGP-LS node name (attribute 29, accepted on any family) pasted bare into the attribute list
LC = attr(0xC0, 32, struct.pack('!LLL', 1, 2, 3))
collide('update-nodename-forges-attribute', 2,
        upd(BASE + lsattr(tlv(1026, b'x large-community 1:2:3'))), upd(BASE + lsattr(tlv(1026, b'x')) + LC),
        'node name "x large-community 1:2:3" reads as a LARGE_COMMUNITY attribute the route does not have')
# V4 UPDATE, text: SR policy name / candidate path name (tunnel encap 23) between quotes which are not escaped
collide('update-policyname-forges-subtlv', 2,
        upd(BASE + attr(0xC0, 23, tun(15, st(130, b'\x00' + b'p" priority 7 policy-name "q')))),
        upd(BASE + attr(0xC0, 23, tun(15, st(130, b'\x00p') + st(15, b'\x07') + st(130, b'\x00q')))),
        'policy name closes its quotes and adds a priority sub-TLV')
# V5 every text string: oneline() escapes control characters with a backslash but not the backslash itself
collide('oneline-backslash-not-escaped', 1,
        open_body([hn(b'a\nb', b'')]), open_body([hn(b'a\\nb', b'')]),
        'a real line feed and the two characters backslash-n give the same record (the escaping is not reversible)')
collide('oneline-backslash-advisory', 6,
        op(1, bytes.fromhex('000101') + b'\x00'), op(1, bytes.fromhex('000101') + b'\\x00'),
        'NUL and the four characters \\x00 give the same record')


def sweep_case(name, t, body, **kw):
    global violations
    st_, info, res = run_case(name, t, body, **kw)
    if st_ == 'refused':
        print(f'refused   {name:34} {info}')
        return
    bad = [(k, v, p) for k, v, pk, p, o in res if p]
    violations += bool(bad)
    print(f'{"VIOLATION" if bad else "ok       "} {name:34} json v4/v6 + text v4/v6, parsed and consolidated{": " + repr(bad[:2]) if bad else ""}')


# a few of the cases which render CORRECTLY (the full lists are t2.py .. t12.py, run with --sweep)
HOST = b'a"\\\n\r\x00\x7f\x1b[31m\xc3\xa9 z'
sweep_case('open hostile hostname/software', 1, open_body([hn(HOST, HOST), sw(HOST)]))
sweep_case('notification 6/2 hostile text', 3, bytes([6, 2, len(HOST)]) + HOST)
sweep_case('notification 6/4 invalid utf8', 3, bytes([6, 4, 3]) + b'\xff\xfe\xfd')
sweep_case('operational advisory hostile', 6, op(1, bytes.fromhex('000101') + HOST + b'\xff'))
sweep_case('operational unknown type', 6, op(0x99, b'"\n'))
sweep_case('refresh unknown family', 5, bytes.fromhex('12340063'))
sweep_case('update unknown attribute', 2, upd(BASE + attr(0xC0, 99, HOST)))
sweep_case('update bgp-ls names/opaque', 2, upd(BASE + lsattr(tlv(1026, HOST), tlv(1098, HOST), tlv(1025, HOST), tlv(1097, HOST), tlv(1157, HOST), tlv(9999, HOST), tlv(9999, HOST))))
sweep_case('update bgp-ls bandwidth NaN/inf', 2, upd(BASE + lsattr(tlv(1089, bytes.fromhex('7fc00000')), tlv(1090, bytes.fromhex('7f800000')), tlv(1091, bytes.fromhex('ff800000') * 8))))
sweep_case('update traffic-rate NaN/inf', 2, upd(BASE + attr(0xC0, 16, bytes.fromhex('80060000' '7fc00000' '80060000' '7f800000'))))
sweep_case('update aggregator+as4-aggregator', 2, upd(BASE + attr(0xC0, 7, struct.pack('!L', 23456) + bytes(4)) + attr(0xC0, 18, struct.pack('!L', 70000) + bytes(4))))
sweep_case('update same prefix announce+withdraw', 2, upd(BASE, wd=bytes.fromhex('080a')))
sweep_case('update add-path same prefix twice', 2, upd(BASE, nlri=bytes.fromhex('00000001080a00000002080a')), add_path=True)
sweep_case('update sr-policy names hostile', 2, upd(BASE + attr(0xC0, 23, tun(15, st(129, b'\x00' + HOST) + st(130, b'\x00' + HOST) + st(130, b'\x00x')))))
sweep_case('EOR unknown family', 2, upd(attr(0x90, 15, bytes.fromhex('006363')), nlri=b''))

if '--sweep' in sys.argv:
    for mod in ('t2', 't3', 't4', 't5', 't6', 't7', 't8', 't9', 't10', 't11', 't12'):
        r = subprocess.run([sys.executable, os.path.join(HERE, mod + '.py')], capture_output=True, text=True)
        lines = r.stdout.splitlines()
        bad = [l for l in lines if 'VIOLATION' in l or 'violations, first' in l]
        violations += len(bad)
        print(f'{"VIOLATION" if bad else "ok       "} sweep {mod}: {len(lines)} lines, {sum(" ok" in l or "no violation" in l for l in lines)} ok, {sum("REFUSED" in l for l in lines)} refused by the decoder, {len(bad)} violations')
        for l in bad[:5]:
            print('    ', l[:300])

print(f'{violations} violation line(s)')
sys.exit(1 if violations else 0)
