import sys
sys.path.insert(0,'/tmp/obs_C13/_out')
from probe_lib import *
V='-v' in sys.argv
def go(name, t, body, **kw):
    st, info, res = run_case(name, t, body, **kw)
    if st == 'refused':
        print(f'{name:28} REFUSED {info}'); return
    okk=True
    for kind, ver, pk, problems, out in res:
        if problems and not pk:
            okk=False
            print(f'{name:28} {kind}{ver} VIOLATION {problems}\n      {out[:900]!r}')
    for kind, ver, pk, problems, out in res:
        if problems and pk and okk:
            okk=False
            print(f'{name:28} {kind}{ver} +packet VIOLATION {problems}\n      {out[:600]!r}')
    if okk: print(f'{name:28} ok')
    if V:
        o=res[0][4]; i=o.find('"message"'); j=o.find('"negotiated"')
        print('   ', o[i:j if j>0 else None][:900]); print('   ', repr(res[3][4][:900]))

def attr(flag, code, val):
    if len(val) > 255 or flag & 0x10:
        return bytes([flag | 0x10, code]) + struct.pack('!H', len(val)) + val
    return bytes([flag, code, len(val)]) + val
ORIGIN = attr(0x40, 1, b'\x00'); ASPATH = attr(0x40, 2, b''); NH = attr(0x40, 3, bytes([1,2,3,4])); LP = attr(0x40, 5, struct.pack('!L', 100))
BASE = ORIGIN + ASPATH + NH + LP
def upd(attrs, nlri=bytes.fromhex('080a'), wd=b''):
    return struct.pack('!H', len(wd)) + wd + struct.pack('!H', len(attrs)) + attrs + nlri

if __name__ == "__main__": go('unknown attr 99', 2, upd(BASE + attr(0xC0, 99, b'"\n\x00\xff')))
if __name__ == "__main__": go('unknown attr 99 empty', 2, upd(BASE + attr(0xC0, 99, b'')))
if __name__ == "__main__": go('unknown attr 255', 2, upd(BASE + attr(0xC0, 255, b'ab')))
if __name__ == "__main__": go('unknown attr long', 2, upd(BASE + attr(0xC0, 99, b'x'*3000)))
if __name__ == "__main__": go('unknown attrs many', 2, upd(BASE + b''.join(attr(0xC0, c, b'x') for c in range(41, 120))))
if __name__ == "__main__": go('unknown attr partial', 2, upd(BASE + attr(0xE0, 99, b'ab')))
if __name__ == "__main__": go('unknown attr non-transitive', 2, upd(BASE + attr(0x80, 99, b'ab')))
if __name__ == "__main__": go('unknown attr wellknown flag', 2, upd(BASE + attr(0x40, 99, b'ab')))
if __name__ == "__main__": go('as4path alone', 2, upd(BASE + attr(0xC0, 17, bytes([2,1])+struct.pack('!L',70000))))
if __name__ == "__main__": go('as4aggr alone', 2, upd(BASE + attr(0xC0, 18, struct.pack('!L',70000)+bytes([1,1,1,1]))))
if __name__ == "__main__": go('aggr+as4aggr', 2, upd(BASE + attr(0xC0, 7, struct.pack('!L',23456)+bytes([1,1,1,1])) + attr(0xC0, 18, struct.pack('!L',70000)+bytes([2,2,2,2]))))
if __name__ == "__main__": go('aggr(not trans)+as4aggr', 2, upd(BASE + attr(0xC0, 7, struct.pack('!L',100)+bytes([1,1,1,1])) + attr(0xC0, 18, struct.pack('!L',70000)+bytes([2,2,2,2]))))
if __name__ == "__main__": go('aggr 2 byte', 2, upd(BASE + attr(0xC0, 7, struct.pack('!H',100)+bytes([1,1,1,1]))))
if __name__ == "__main__": go('atomic', 2, upd(BASE + attr(0x40, 6, b'')))
if __name__ == "__main__": go('med max', 2, upd(BASE + attr(0x80, 4, b'\xff\xff\xff\xff')))
if __name__ == "__main__": go('originator+cluster', 2, upd(BASE + attr(0x80, 9, bytes([1,1,1,1])) + attr(0x80, 10, bytes([1,1,1,1,2,2,2,2]))))
if __name__ == "__main__": go('cluster empty', 2, upd(BASE + attr(0x80, 10, b'')))
if __name__ == "__main__": go('community empty', 2, upd(BASE + attr(0xC0, 8, b'')))
if __name__ == "__main__": go('community wellknown', 2, upd(BASE + attr(0xC0, 8, bytes.fromhex('ffffff01ffffff02ffffff03ffffff04ffff0000ffff029affffff0600000000ffffffff'))))
if __name__ == "__main__": go('community dup', 2, upd(BASE + attr(0xC0, 8, bytes.fromhex('00010001'*3))))
if __name__ == "__main__": go('large community', 2, upd(BASE + attr(0xC0, 32, struct.pack('!LLL', 0xffffffff, 0, 1)*2)))
if __name__ == "__main__": go('large community empty', 2, upd(BASE + attr(0xC0, 32, b'')))
if __name__ == "__main__": go('aigp', 2, upd(BASE + attr(0x80, 26, b'\x01\x00\x0b' + struct.pack('!Q', 2**64-1))))
if __name__ == "__main__": go('aigp other tlv', 2, upd(BASE + attr(0x80, 26, b'\x02\x00\x04a' + b'\x01\x00\x0b' + struct.pack('!Q', 10))))
if __name__ == "__main__": go('aigp two', 2, upd(BASE + attr(0x80, 26, (b'\x01\x00\x0b' + struct.pack('!Q', 10))*2)))
if __name__ == "__main__": go('aspath set/confed', 2, upd(ORIGIN + attr(0x40, 2, bytes([1,2])+struct.pack('!LL',1,2)+bytes([2,1])+struct.pack('!L',4294967295)+bytes([3,1])+struct.pack('!L',3)+bytes([4,1])+struct.pack('!L',4)) + NH + LP))
if __name__ == "__main__": go('aspath empty segment', 2, upd(ORIGIN + attr(0x40, 2, bytes([2,0])) + NH + LP))
if __name__ == "__main__": go('aspath many segs', 2, upd(ORIGIN + attr(0x40, 2, (bytes([2,1])+struct.pack('!L',1))*300) + NH + LP))
if __name__ == "__main__": go('origin 2', 2, upd(attr(0x40,1,b'\x02') + ASPATH + NH))
if __name__ == "__main__": go('origin 9', 2, upd(attr(0x40,1,b'\x09') + ASPATH + NH))
if __name__ == "__main__": go('dup attr', 2, upd(BASE + attr(0x80,4,b'\0\0\0\1') + attr(0x80,4,b'\0\0\0\2')))
if __name__ == "__main__": go('no attrs, nlri', 2, upd(b''))
if __name__ == "__main__": go('attrs no nlri', 2, upd(BASE, nlri=b''))
if __name__ == "__main__": go('only nexthop no nlri', 2, upd(NH, nlri=b''))
if __name__ == "__main__": go('withdraw+announce same', 2, upd(BASE, wd=bytes.fromhex('080a')))
if __name__ == "__main__": go('withdraw only', 2, upd(b'', nlri=b'', wd=bytes.fromhex('080a180a0000')))
if __name__ == "__main__": go('withdraw dup', 2, upd(b'', nlri=b'', wd=bytes.fromhex('080a080a')))
if __name__ == "__main__": go('announce dup', 2, upd(BASE, nlri=bytes.fromhex('080a080a')))
if __name__ == "__main__": go('EOR v4', 2, upd(b'', nlri=b''))
if __name__ == "__main__": go('nlri /0 /32', 2, upd(BASE, nlri=bytes.fromhex('00' + '2001020304')))
if __name__ == "__main__": go('nlri /33', 2, upd(BASE, nlri=bytes.fromhex('210102030405')))
if __name__ == "__main__": go('nexthop 0.0.0.0', 2, upd(ORIGIN+ASPATH+attr(0x40,3,bytes(4))+LP))
if __name__ == "__main__": go('no nexthop', 2, upd(ORIGIN+ASPATH+LP))
if __name__ == "__main__": go('pmsi', 2, upd(BASE + attr(0xC0, 22, bytes([0,6]) + b'\x00\x01\x00' + bytes([1,2,3,4]))))
if __name__ == "__main__": go('pmsi unknown type', 2, upd(BASE + attr(0xC0, 22, bytes([0xff,99]) + b'\x00\x01\x00' + b'"\n\x00')))
if __name__ == "__main__": go('pmsi none', 2, upd(BASE + attr(0xC0, 22, bytes([0,0]) + b'\x00\x00\x00')))
for t in (range(0, 9) if __name__ == "__main__" else []):
    go(f'pmsi type {t} odd', 2, upd(BASE + attr(0xC0, 22, bytes([1,t]) + b'\xff\xff\xff' + b'"\n\x00x')))
