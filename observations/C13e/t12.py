import sys, random
sys.path.insert(0,'/tmp/obs_C13/_out')
import probe_lib
from probe_lib import *
from t2 import open_body, hn, sw, cap
from t3 import op
from t4 import go, attr, ORIGIN, ASPATH, NH, LP, BASE, upd
from t5 import reach, unreach, mp, B, V4NH, V6NH, RD
from t9 import scan
def text(kind_ver, t, body):
    n, neg, m = decode(t, body)
    enc = [e for k, v, e in encoders() if (k, v) == kind_ver][0]
    return render(enc, n, neg, t, m, b'', b'')[1]
if __name__ == '__main__':
  for kv in (('text', 4), ('text', 6)):
    a = text(kv, 1, open_body([hn(b'a b', b'')])); b = text(kv, 1, open_body([hn(b'a', b'b')]))
    print(kv, 'hostname "a b"/"" == "a"/"b":', a == b, repr(a))
    a = text(kv, 1, open_body([hn(b'a ), software(evil', b'')])); b = text(kv, 1, open_body([hn(b'a', b''), sw(b'evil')]))
    print(kv, 'forged software capability:', a == b, repr(a), repr(b))
    a = text(kv, 1, open_body([hn(b'a\nb', b'')])); b = text(kv, 1, open_body([hn(b'a\\nb', b'')]))
    print(kv, 'newline vs backslash-n:', a == b, repr(a))
    a = text(kv, 6, op(1, bytes.fromhex('000101') + b'x" header 0xFF body 0x00 "'))
    print(kv, 'advisory quote:', repr(a))
  # compact mode
  getenv().api.compact = True
  go('compact simple', 2, upd(BASE, nlri=bytes.fromhex('080a080b')))
  go('compact withdraw', 2, upd(b'', nlri=b'', wd=bytes.fromhex('080a')))
  go('compact labelled', 2, mp(1,4,V4NH, bytes.fromhex('20' + '000641' + '0a')))
  scan('compact random', lambda r: mp(r.choice([1,2,25]), r.choice([1,2,4,128,133,70,65,85,5,73,132]), r.choice([V4NH,V6NH,b'',bytes(8)+V4NH]), r.randbytes(r.randrange(1,40))), 2000)
  getenv().api.compact = False
  # asn4 false
  n, neg = negotiated(False)
  orig = probe_lib.negotiated
  def neg2(add_path=False):
      n, g = orig(add_path); g.asn4 = False; return n, g
  probe_lib.negotiated = neg2
  P2 = lambda *a: b''.join(struct.pack('!H', x) for x in a)
  go('asn2 aspath+as4path', 2, upd(ORIGIN + attr(0x40,2,bytes([2,2])+P2(23456, 100)) + NH + LP + attr(0xC0,17,bytes([2,1])+struct.pack('!L',70000))))
  go('asn2 aggr+as4aggr', 2, upd(ORIGIN + attr(0x40,2,bytes([2,1])+P2(100)) + NH + LP + attr(0xC0,7,P2(23456)+bytes(4)) + attr(0xC0,18,struct.pack('!L',70000)+bytes(4))))
  go('asn2 as4path longer', 2, upd(ORIGIN + attr(0x40,2,bytes([2,1])+P2(100)) + NH + LP + attr(0xC0,17,bytes([2,3])+struct.pack('!LLL',1,2,3))))
  go('asn2 as4path confed', 2, upd(ORIGIN + attr(0x40,2,bytes([2,1])+P2(100)) + NH + LP + attr(0xC0,17,bytes([3,1])+struct.pack('!L',1))))
  scan('asn2 random paths', lambda r: upd(ORIGIN + attr(0x40,2,b''.join(bytes([r.choice([1,2,3,4]), k]) + r.randbytes(2*k) for k in [r.randrange(0,4) for _ in range(r.randrange(0,4))])) + NH + LP + attr(0xC0,17,b''.join(bytes([r.choice([1,2,3,4,9]), k]) + r.randbytes(4*k) for k in [r.randrange(0,4) for _ in range(r.randrange(0,4))])) + (attr(0xC0,7,r.randbytes(6)) if r.random()<.5 else b'') + (attr(0xC0,18,r.randbytes(8)) if r.random()<.5 else b'')), 2000)
  probe_lib.negotiated = orig
