import sys
sys.path.insert(0,'/tmp/obs_C13/_out')
from probe_lib import *
V='-v' in sys.argv
def go(name, t, body, **kw):
    st, info, res = run_case(name, t, body, **kw)
    if st == 'refused':
        print(f'{name:28} REFUSED {info}'); return
    okk=True
    for kind, ver, pk, problems, out in res:
        if problems and not pk:
            okk=False
            print(f'{name:28} {kind}{ver} VIOLATION {problems}\n      {out[:600]!r}')
    for kind, ver, pk, problems, out in res:
        if problems and pk and okk:
            okk=False
            print(f'{name:28} {kind}{ver} +packet VIOLATION {problems}\n      {out[:600]!r}')
    if okk: print(f'{name:28} ok')
    if V:
        o=res[0][4]; i=o.find('"direction"'); j=o.find('"negotiated"')
        print('   ', o[i:j if j>0 else None][:700]); print('   ', repr(res[3][4][:700]))

# NOTIFICATION
if __name__ == "__main__": go('notif 6/2 shutdown comm', 3, bytes([6,2]) + bytes([10]) + b'a"\\\n\r\x00b\xc3\xa9z')
if __name__ == "__main__": go('notif 6/2 invalid utf8', 3, bytes([6,2]) + bytes([3]) + b'\xff\xfe\xfd')
if __name__ == "__main__": go('notif 6/2 len too long', 3, bytes([6,2]) + bytes([200]) + b'abc')
if __name__ == "__main__": go('notif 6/2 empty', 3, bytes([6,2]))
if __name__ == "__main__": go('notif 6/2 zero len', 3, bytes([6,2,0]))
if __name__ == "__main__": go('notif 6/2 trailing', 3, bytes([6,2,1])+b'ab"\n')
if __name__ == "__main__": go('notif 6/4 255', 3, bytes([6,4]) + bytes([255]) + b'\n'*255)
if __name__ == "__main__": go('notif 6/4 non-ascii', 3, bytes([6,4]) + bytes([2]) + 'é'.encode())
if __name__ == "__main__": go('notif 2/7 data', 3, bytes([2,7]) + b'"\n\x00')
if __name__ == "__main__": go('notif unknown code', 3, bytes([99,99]) + b'"\n\x00')
if __name__ == "__main__": go('notif 0/0', 3, bytes([0,0]))
if __name__ == "__main__": go('notif short', 3, bytes([6]))
if __name__ == "__main__": go('notif 1/1 long', 3, bytes([1,1]) + b'A'*4000)
# ROUTE REFRESH
if __name__ == "__main__": go('refresh normal', 5, bytes.fromhex('00010001'))
if __name__ == "__main__": go('refresh begin', 5, bytes.fromhex('00010101'))
if __name__ == "__main__": go('refresh end', 5, bytes.fromhex('00010201'))
if __name__ == "__main__": go('refresh subtype 99', 5, bytes.fromhex('00016301'))
if __name__ == "__main__": go('refresh subtype 255', 5, bytes.fromhex('0001ff01'))
if __name__ == "__main__": go('refresh unknown afi', 5, bytes.fromhex('12340063'))
if __name__ == "__main__": go('refresh orf trailing', 5, bytes.fromhex('00010001') + b'\x01\x40\x00\x01\x00')
if __name__ == "__main__": go('refresh short', 5, bytes.fromhex('000100'))
# KEEPALIVE
if __name__ == "__main__": go('keepalive', 4, b'')
if __name__ == "__main__": go('keepalive with body', 4, b'x')
# OPERATIONAL
def op(what, payload): return struct.pack('!HH', what, len(payload)) + payload
fam = bytes.fromhex('000101')
if __name__ == "__main__": go('op ADM', 6, op(0x01, fam + b'hello "\n\\ \x00 \xc3\xa9 \xff'))
if __name__ == "__main__": go('op ASM', 6, op(0x02, fam + b'hello "\n'))
if __name__ == "__main__": go('op ADM empty', 6, op(0x01, fam))
if __name__ == "__main__": go('op ADM nofam', 6, op(0x01, b''))
if __name__ == "__main__": go('op ADM long', 6, op(0x01, fam + b'x'*3000))
if __name__ == "__main__": go('op RPCQ', 6, op(0x03, fam + b'\x01\x02\x03\x04' + b'\x00\x00\x00\x07'))
if __name__ == "__main__": go('op RPCP', 6, op(0x04, fam + b'\x01\x02\x03\x04' + b'\x00\x00\x00\x07' + b'\xff\xff\xff\xff'))
if __name__ == "__main__": go('op APCQ', 6, op(0x05, fam + b'\x01\x02\x03\x04' + b'\x00\x00\x00\x07'))
if __name__ == "__main__": go('op APCP', 6, op(0x06, fam + b'\x01\x02\x03\x04' + b'\x00\x00\x00\x07' + b'\xff\xff\xff\xff'))
if __name__ == "__main__": go('op LPCQ', 6, op(0x07, fam + b'\x01\x02\x03\x04' + b'\x00\x00\x00\x07'))
if __name__ == "__main__": go('op LPCP', 6, op(0x08, fam + b'\x01\x02\x03\x04' + b'\x00\x00\x00\x07' + b'\xff\xff\xff\xff'))
if __name__ == "__main__": go('op RPCQ short', 6, op(0x03, fam))
if __name__ == "__main__": go('op RPCP short', 6, op(0x04, fam + b'\x01\x02'))
if __name__ == "__main__": go('op NS', 6, op(0xFFFF, fam + b'\x00\x01'))
if __name__ == "__main__": go('op NS codes', 6, op(0xFFFF, fam + b'\x00\x63'))
for i in ((0, 9, 0x0A, 0x100, 0xFFFE) if __name__ == "__main__" else ()):
    go(f'op type {i:#x}', 6, op(i, fam + b'"\n'))
if __name__ == "__main__": go('op unknown fam ADM', 6, op(0x01, bytes.fromhex('123463') + b'hello'))
if __name__ == "__main__": go('op short', 6, b'\x00')
if __name__ == "__main__": go('op len mismatch', 6, struct.pack('!HH', 1, 100) + fam + b'x')
