#!/usr/bin/env python
"""C08 baseline probe: inputs for which the UNCHANGED tree violates
"malformed attributes never yield announced routes (RFC 7606)".

Run:  cd <tree> && PYTHONPATH=<tree>/src /venv/bin/python _out/baseline_probe.py
Exit 1 while at least one of the problems below is still there, 0 when none is.

Everything goes through the real code: Protocol.read_message() on a fake connection, the real
JSON encoder for the API event, the real UpdateHandler and IncomingRIB for Adj-RIB-In.
Details of every observation: _out/baseline_observations.md (same B-numbers).
"""

import asyncio
import json
import struct
import sys
from unittest.mock import AsyncMock, MagicMock, Mock

from exabgp.bgp.message.notification import Notify
from exabgp.bgp.message.update.attribute.collection import AttributeCollection
from exabgp.protocol.family import AFI, SAFI
from exabgp.protocol.ip import IPv4
from exabgp.reactor.api.response.json import JSON
from exabgp.reactor.peer.context import PeerContext
from exabgp.reactor.peer.handlers.update import UpdateHandler
from exabgp.reactor.protocol import Protocol
from exabgp.rib.incoming import IncomingRIB

FAMILIES = ((AFI.ipv4, SAFI.unicast), (AFI.ipv6, SAFI.unicast))


class Stats(dict):
    def __getitem__(self, key):
        if key not in self:
            self[key] = 0
        return super().__getitem__(key)


def session(aigp=False):
    AttributeCollection.cached = None
    AttributeCollection.previous = b''
    neighbor = MagicMock()
    neighbor.uid = '1'
    neighbor.session.peer_address = IPv4.from_string('192.0.2.1')
    neighbor.session.local_address = IPv4.from_string('192.0.2.2')
    neighbor.session.peer_as = 65001
    neighbor.session.local_as = 65000
    neighbor.session.connect = 0
    neighbor.capability.aigp.is_enabled = Mock(return_value=aigp)
    neighbor.adj_rib_in = True
    neighbor.api = {
        'neighbor-changes': False, 'receive-packets': False, 'receive-parsed': True, 'receive-consolidate': False,
        'send-packets': False, 'send-parsed': False, 'send-consolidate': False, 'negotiated': False,
        'receive-update': True, 'receive-notification': True,
    }  # fmt: skip
    neighbor.rib.incoming = IncomingRIB(True, set(FAMILIES), True)
    peer = Mock()
    peer.neighbor = neighbor
    peer.stats = Stats()
    events = []

    def message(msg_id, peer_, direction, message, header, body, negotiated):
        if getattr(message, 'IS_EOR', False):
            events.append({'eor': '%s %s' % (message.nlris[0].afi, message.nlris[0].safi)})
            return
        text = JSON('6.0.0').update(neighbor, direction, message.data, header, body, negotiated)
        events.append(json.loads(text)['neighbor']['message'].get('update', {}))

    peer.reactor.processes.message = message
    proto = Protocol(peer)
    proto.negotiated.asn4 = True
    proto.negotiated.families = list(FAMILIES)
    proto.negotiated.local_as = 65000
    proto.negotiated.peer_as = 65001
    proto.connection = Mock()
    proto.connection.session = Mock(return_value='s')
    ctx = PeerContext(
        proto=proto, neighbor=neighbor, negotiated=proto.negotiated, refresh_enhanced=False,
        routes_per_iteration=1, peer_id='p', stats=peer.stats,
    )  # fmt: skip
    return proto, ctx, events


def feed(sess, body):
    """One UPDATE body through read_message and the UPDATE handler -> (kind, [api events])."""
    proto, ctx, events = sess
    header = b'\xff' * 16 + struct.pack('!HB', 19 + len(body), 2)
    proto.connection.reader_async = AsyncMock(return_value=(19 + len(body), 2, header, body, None))
    before = len(events)
    try:
        msg = asyncio.run(proto.read_message())
    except Notify as exc:
        return 'notification %d/%d' % (exc.code, exc.subcode), []
    handler = UpdateHandler()
    if handler.can_handle(msg):
        asyncio.run(handler.handle_async(ctx, msg))
    return 'update', events[before:]


def rib(sess):
    return sorted(
        '%s next-hop %s%s' % (r.nlri, r.nexthop, r.attributes) for r in sess[1].neighbor.rib.incoming.cached_routes()
    )


def attr(flag, code, value):
    return bytes([flag, code, len(value)]) + value


ORIGIN = attr(0x40, 1, b'\x00')
ASPATH = attr(0x40, 2, b'\x02\x01' + struct.pack('!L', 65001))
NEXTHOP = attr(0x40, 3, bytes([192, 0, 2, 1]))
MED10 = attr(0x80, 4, struct.pack('!L', 10))
MED20 = attr(0x80, 4, struct.pack('!L', 20))
BASE = ORIGIN + ASPATH + NEXTHOP
P0 = bytes([24, 10, 0, 0])  # 10.0.0.0/24
P1 = bytes([24, 10, 0, 1])  # 10.0.1.0/24
NH6 = bytes.fromhex('20010db8000000000000000000000001')
MP6_VALUE = struct.pack('!HB', 2, 1) + b'\x10' + NH6 + b'\x00' + b'\x20\x20\x01\x0d\xb8'  # 2001:db8::/32
MP6 = attr(0x80, 14, MP6_VALUE)
UNREACH6_VALUE = struct.pack('!HB', 2, 1) + b'\x20\x20\x01\x0d\xb8'


def update(attributes, nlri=b'', withdrawn=b''):
    return struct.pack('!H', len(withdrawn)) + withdrawn + struct.pack('!H', len(attributes)) + attributes + nlri


def announced(events):
    return [e['announce'] for e in events if e.get('announce')]


def withdrawn(events):
    return [e['withdraw'] for e in events if e.get('withdraw')]


PROBLEMS = []


def report(tag, title, violated, expected, observed):
    print('[%s] %s' % (tag, title))
    print('      expected: %s' % expected)
    print('      observed: %s' % observed)
    print('      => %s' % ('VIOLATION' if violated else 'ok'))
    if violated:
        PROBLEMS.append(tag)


# --------------------------------------------------------------------------------------------
# B1  attribute discard: the API is told about the routes, Adj-RIB-In ignores the whole UPDATE
# --------------------------------------------------------------------------------------------
s = session()
feed(s, update(BASE + MED10, P0))  # 10.0.0.0/24 med 10 is in Adj-RIB-In
before = rib(s)
# one UPDATE: withdraw 10.0.0.0/24, announce 10.0.1.0/24, AGGREGATOR of 5 bytes (RFC 7606 7.7: discard the attribute)
kind, events = feed(s, update(BASE + attr(0xC0, 7, bytes(5)), P1, withdrawn=P0))
after = rib(s)
api_says = 'announce=%s withdraw=%s' % (announced(events), withdrawn(events))
violated = kind == 'update' and bool(announced(events)) and after == before
report(
    'B1a', 'malformed AGGREGATOR (attribute discard): API and Adj-RIB-In disagree, withdraw is lost', violated,
    'AGGREGATOR dropped, rest kept: Adj-RIB-In = [10.0.1.0/24] (10.0.0.0/24 withdrawn), same as the API event',
    'API: %s | Adj-RIB-In before=%s after=%s' % (api_says, before, after),
)  # fmt: skip

s = session(aigp=False)
feed(s, update(BASE + MED10, P0))
before = rib(s)
# a perfectly VALID AIGP attribute on a session where aigp is not enabled, replacing the route (med 20) ...
kind, events = feed(s, update(BASE + MED20 + attr(0x80, 26, b'\x01\x00\x0b' + struct.pack('!Q', 5)), P0))
after = rib(s)
violated = kind == 'update' and bool(announced(events)) and after == before
report(
    'B1b', 'valid AIGP on a session without aigp: UPDATE reaches the API, Adj-RIB-In keeps the old route', violated,
    'AIGP removed, UPDATE processed (RFC 7311 3.4): Adj-RIB-In holds 10.0.0.0/24 with med 20',
    'API announce=%s | Adj-RIB-In before=%s after=%s' % (announced(events), before, after),
)  # fmt: skip

# --------------------------------------------------------------------------------------------
# B2  treat-as-withdraw decided without locating the MP routes: nothing withdrawn, no reset
# --------------------------------------------------------------------------------------------
for tag, title, attributes in (
    ('B2a', 'MP_REACH_NLRI with flags 0xC0 (optional TRANSITIVE)', ORIGIN + ASPATH + MED20 + attr(0xC0, 14, MP6_VALUE)),
    ('B2b', 'MP_REACH_NLRI of length 0', ORIGIN + ASPATH + MED20 + attr(0x80, 14, b'')),
    ('B2c', 'MED overrunning the block, placed before MP_REACH_NLRI', ORIGIN + ASPATH + b'\x80\x04\xf0' + MP6),
    ('B2d', 'MP_UNREACH_NLRI with flags 0xC0 (the peer withdraws the route)', attr(0xC0, 15, UNREACH6_VALUE)),
):
    s = session()
    feed(s, update(MP6 + ORIGIN + ASPATH + MED10))  # 2001:db8::/32 med 10 stored
    before = rib(s)
    kind, events = feed(s, update(attributes))
    after = rib(s)
    violated = kind == 'update' and not withdrawn(events) and after == before and bool(before)
    report(
        tag, title + ': marked treat-as-withdraw, nothing withdrawn, session kept', violated,
        '2001:db8::/32 withdrawn (API withdraw + gone from Adj-RIB-In), or UPDATE Message Error NOTIFICATION '
        '(RFC 7606 3.j / 5.3: treat-as-withdraw needs the MP NLRI, otherwise reset)',
        '%s announce=%s withdraw=%s | Adj-RIB-In still %s' % (kind, announced(events), withdrawn(events), after),
    )  # fmt: skip

# --------------------------------------------------------------------------------------------
# B3  AS_PATH with a zero-length segment (RFC 7606 7.2: malformed, treat-as-withdraw)
# --------------------------------------------------------------------------------------------
s = session()
kind, events = feed(s, update(ORIGIN + attr(0x40, 2, b'\x02\x00' + b'\x02\x01' + struct.pack('!L', 65001)) + NEXTHOP, P0))
violated = kind == 'update' and bool(announced(events))
report(
    'B3', 'AS_PATH 02 00 | 02 01 0000fde9 (first segment has length zero) is accepted', violated,
    'treat-as-withdraw (RFC 7606 7.2 "It has a Path Segment Length field of zero")',
    '%s announce=%s as-path=%s | Adj-RIB-In=%s'
    % (kind, announced(events), [e.get('attribute', {}).get('as-path') for e in events], rib(s)),
)  # fmt: skip

# --------------------------------------------------------------------------------------------
# B4  NEXT_HOP of 16 bytes with routes in the IPv4 NLRI field (RFC 7606 7.3 / RFC 4271: length is 4)
# --------------------------------------------------------------------------------------------
s = session()
kind, events = feed(s, update(ORIGIN + ASPATH + attr(0x40, 3, bytes(range(1, 17))), P0))
violated = kind == 'update' and bool(announced(events))
report(
    'B4', 'NEXT_HOP attribute of 16 bytes is accepted as an IPv6 next-hop for an IPv4 NLRI-field route', violated,
    'treat-as-withdraw (NEXT_HOP length other than 4 is malformed)',
    '%s announce=%s | Adj-RIB-In=%s' % (kind, announced(events), rib(s)),
)  # fmt: skip

# --------------------------------------------------------------------------------------------
# B5  flags in conflict with the type code on a "discard" class attribute: silently dropped, route announced
# --------------------------------------------------------------------------------------------
s = session()
kind, events = feed(s, update(BASE + attr(0x40, 7, struct.pack('!L', 65001) + bytes([192, 0, 2, 9])), P0))
violated = kind == 'update' and bool(announced(events))
report(
    'B5', 'AGGREGATOR flagged well-known (0x40 instead of 0xC0) is dropped and the route announced without it', violated,
    'treat-as-withdraw (RFC 7606 3.c: Optional/Transitive bits in conflict with the type), as done for the other classes',
    '%s announce=%s attribute=%s' % (kind, announced(events), [e.get('attribute') for e in events]),
)  # fmt: skip

# --------------------------------------------------------------------------------------------
# B6  COMMUNITY / EXTENDED COMMUNITIES / IPv6 EXTENDED COMMUNITIES with a bad length: session reset
# --------------------------------------------------------------------------------------------
results = []
for code, size in ((8, 5), (16, 9), (25, 21)):
    s = session()
    kind, events = feed(s, update(BASE + attr(0xC0, code, bytes(size)), P0))
    results.append((code, kind))
violated = all(kind.startswith('notification') for _, kind in results)
report(
    'B6', 'malformed COMMUNITY(8) / EXT_COMMUNITY(16) / IPv6_EXT_COMMUNITY(25) length resets the session', violated,
    'treat-as-withdraw: that is the RFC 7606 class of these attributes (7.8, 7.14), LARGE_COMMUNITY already does it',
    str(results),
)  # fmt: skip

# --------------------------------------------------------------------------------------------
# B7  unrecognised attribute with the Optional bit clear (an unrecognised WELL-KNOWN attribute)
# --------------------------------------------------------------------------------------------
s = session()
kind, events = feed(s, update(BASE + attr(0x40, 99, bytes(4)), P0))
violated = kind == 'update' and bool(announced(events))
report(
    'B7', 'unknown attribute 99 with flags 0x40 (well-known) is accepted and kept as optional transitive partial', violated,
    'NOTIFICATION 3/2 Unrecognized Well-known Attribute (RFC 4271 6.3, not relaxed by RFC 7606)',
    '%s announce=%s attribute=%s' % (kind, announced(events), [e.get('attribute') for e in events]),
)  # fmt: skip

# --------------------------------------------------------------------------------------------
# B8  an UPDATE whose only attribute is dropped for its flags is reported as End-of-RIB
# --------------------------------------------------------------------------------------------
s = session()
kind, events = feed(s, update(attr(0x40, 7, struct.pack('!L', 65001) + bytes([192, 0, 2, 9]))))
violated = kind == 'update' and any('eor' in e for e in events)
report(
    'B8', 'UPDATE carrying only an AGGREGATOR with wrong flags (no NLRI) becomes an "ipv4 unicast" End-of-RIB event', violated,
    'not an End-of-RIB: the UPDATE has a non-empty path attribute block (RFC 4724 2: EoR has no attributes)',
    '%s events=%s' % (kind, events),
)  # fmt: skip

# --------------------------------------------------------------------------------------------
# B9  AS4_PATH received on a session where 4-byte ASNs were negotiated rewrites the AS_PATH
# --------------------------------------------------------------------------------------------
s = session()  # negotiated.asn4 is True: both ends are NEW speakers (RFC 6793)
as4path = attr(0xC0, 17, b'\x02\x01' + struct.pack('!L', 7))
kind, events = feed(s, update(BASE + as4path, P0))
paths = [e.get('attribute', {}).get('as-path') for e in events]
violated = kind == 'update' and bool(announced(events)) and paths != [{'0': {'element': 'as-sequence', 'value': [65001]}}]
report(
    'B9', 'asn4 session: AS_PATH [65001] + AS4_PATH [7] is announced and stored with as-path [7]', violated,
    'AS4_PATH from a NEW speaker is discarded (RFC 6793 section 6), the route keeps as-path [ 65001 ]',
    '%s announce=%s as-path=%s | Adj-RIB-In=%s' % (kind, announced(events), paths, rib(s)),
)  # fmt: skip

# --------------------------------------------------------------------------------------------
# B10 iBGP session, UPDATE without LOCAL_PREF (RFC 7606 3.d: missing well-known mandatory attribute)
# --------------------------------------------------------------------------------------------
s = session()
s[0].negotiated.peer_as = 65000  # local_as == peer_as: iBGP
kind, events = feed(s, update(BASE, P0))
violated = kind == 'update' and bool(announced(events))
report(
    'B10', 'iBGP: routes announced without LOCAL_PREF are accepted (ORIGIN / AS_PATH / NEXT_HOP are checked, LOCAL_PREF is not)', violated,
    'treat-as-withdraw (RFC 7606 3.d, RFC 4271 5.1.5: LOCAL_PREF is mandatory on internal sessions)',
    '%s announce=%s | Adj-RIB-In=%s' % (kind, announced(events), rib(s)),
)  # fmt: skip

print()
if PROBLEMS:
    print('baseline problems reproduced: %s' % ' '.join(PROBLEMS))
    sys.exit(1)
print('no baseline problem reproduced')
sys.exit(0)
